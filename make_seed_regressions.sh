#!/bin/bash
# For every stored seeded change: apply it to /repo, run the property's quick check, keep the shrunk
# replay input as a regression input (replayed first on every later run), revert.
cd /verif
for d in seeded/${1:-C*}/; do
  name=$(basename $d); id=${name%%-*}
  cd /repo; git diff --quiet || { echo "/repo dirty"; exit 2; }
  git apply /verif/$d/patch.diff || { echo "$name: patch does not apply"; continue; }
  cd /verif; rm -rf replays/$id
  ./check $id quick > /tmp/reg_$id.log 2>&1
  f=$(ls replays/$id/*.json 2>/dev/null | head -1)
  if [ -n "$f" ]; then python3 - "$f" "$id" "$name" <<'PY'
import json,sys,os
d=json.load(open(sys.argv[1]))
# inputs found by a property's second harness (vtrace) are replayed by that harness only
dirn="regressions/%s%s"%(sys.argv[2], "-tracing" if d.get("harness")=="vtrace" and sys.argv[2]!="C20" else "")
os.makedirs(dirn,exist_ok=True)
json.dump({"property":sys.argv[3][:3],"signature":d["signature"],"harness":d.get("harness","vcheck"),"note":"input that exposes the seeded change /verif/seeded/%s (passes on the unchanged tree)"%sys.argv[3],"input":d["input"]},open("%s/seeded-%s.json"%(dirn,sys.argv[3]),"w"))
PY
    echo "$name: kept $(python3 -c "import json;print(json.load(open('$f'))['signature'])")"
  else echo "$name: no replay produced"; fi
  git -C /repo checkout -- .
done
[ -z "${1:-}" ] && rm -rf replays/*
