#!/bin/bash
# usage: fuzz_eval.sh <seeded-dir-name> [runs]  -- applies a stored seeded change, runs only the libFuzzer campaign of its property, reverts.
name="$1"; runs="${2:-20000}"; id=${name%%-*}
cd /repo || exit 2
git diff --quiet || { echo "/repo has local changes, refusing"; exit 2; }
git apply /verif/seeded/$name/patch.diff || exit 2
trap 'git -C /repo checkout -- . ; echo "[reverted /repo]"' EXIT
cd /verif/fuzz && cargo +nightly fuzz build -s none prop >/dev/null 2>&1 || { echo "fuzz build failed"; exit 2; }
cd /verif && cargo build --offline -p vlab >/dev/null 2>&1
work=/verif/target/fuzz_work/eval-$name; rm -rf $work; mkdir -p $work/corpus
/verif/target/debug/vcheck fuzzseed $id $work/corpus >/dev/null
start=$(date +%s)
( cd $work && VLAB_FUZZ_PROP=$id timeout 1800 /verif/target/x86_64-unknown-linux-gnu/release/prop corpus -runs=$runs -seed=1 -len_control=0 -max_len=3200 -jobs=8 -workers=8 -print_final_stats=1 > out.log 2>&1 )
end=$(date +%s)
execs=$(cat $work/fuzz-*.log | awk '/stat::number_of_executed_units/ {s+=$2} END {print s+0}')
echo "$name: jobs_with_violation=$(grep -l '^VIOLATION' $work/fuzz-*.log | wc -l)/8 wall=$((end-start))s execs_of_clean_jobs=$execs"
grep -h -A1 "^VIOLATION" $work/fuzz-*.log | grep signature | sort | uniq -c
rm -rf $work /verif/replays/$id/fuzz-*
