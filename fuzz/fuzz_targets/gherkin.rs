//! Raw-bytes target for C16: any text that the `gherkin` crate parses must expand exactly like the
//! reference single-pass substitution (or fail naming an unknown placeholder); never panic.
#![no_main]

use libfuzzer_sys::fuzz_target;

fuzz_target!(|data: &[u8]| {
    let Ok(text) = std::str::from_utf8(data) else { return };
    let viol = vlab::func::c16::check_text(text);
    if let Some(v) = viol.first() {
        let dir = "/verif/replays/C16";
        let _ = std::fs::create_dir_all(dir);
        let path = format!("{dir}/fuzz-raw-{:016x}.feature", vlab::tape::hash_str(text));
        let _ = std::fs::write(&path, text);
        println!("VIOLATION property=C16 replay={path}");
        println!("  signature: {}", v.sig);
        println!("  message:   {}", v.msg.chars().take(400).collect::<String>());
        panic!("property violated");
    }
});
