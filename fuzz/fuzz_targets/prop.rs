//! One libFuzzer target for all tape-driven properties: `VLAB_FUZZ_PROP=<ID>` selects the
//! property; the fuzzer's bytes are decoded into the two choice tapes that proptest also drives,
//! so coverage-guided search shares generators, oracles and the replay format with the
//! property-based campaigns.
#![no_main]

use std::sync::OnceLock;

use libfuzzer_sys::fuzz_target;
use vlab::engine::{Ctx, Input, Tier, known_sigs};

struct State {
    prop: Box<dyn vlab::engine::Property>,
    ctx: Ctx,
}

// Properties are not Sync by signature, but libFuzzer runs the target on one thread.
struct Shared(State);
unsafe impl Sync for Shared {}
unsafe impl Send for Shared {}

static STATE: OnceLock<Shared> = OnceLock::new();

fn state() -> &'static State {
    &STATE
        .get_or_init(|| {
            let id = std::env::var("VLAB_FUZZ_PROP").unwrap_or_else(|_| "C11".into());
            let prop = vlab::property(&id).expect("unknown property");
            let ctx = Ctx { tier: Tier::Quick, known: known_sigs(&id), want_sample: false, strict: false };
            Shared(State { prop, ctx })
        })
        .0
}

fn decode(data: &[u8]) -> Input {
    vlab::engine::input_from_bytes(data)
}

fuzz_target!(|data: &[u8]| {
    let st = state();
    let input = decode(data);
    let out = st.prop.run(&input, &st.ctx);
    if let Some(v) = out.violations.iter().find(|v| !st.ctx.is_known(&v.sig)) {
        let id = st.prop.id();
        let dir = format!("/verif/replays/{id}");
        let _ = std::fs::create_dir_all(&dir);
        let path = format!("{dir}/fuzz-{:016x}.json", vlab::tape::hash_str(&format!("{:?}", input)));
        let body = serde_json::json!({"property": id, "signature": v.sig, "message": v.msg, "input": input.to_json(), "origin": "libfuzzer", "zoo_seed": vlab::func::zoo2::ZOO2_SEED});
        let _ = std::fs::write(&path, serde_json::to_string_pretty(&body).unwrap());
        println!("VIOLATION property={id} replay={path}");
        println!("  signature: {}", v.sig);
        println!("  message:   {}", v.msg);
        panic!("property violated");
    }
});
