#!/usr/bin/env python3
"""Regenerates the stored reproducers of known_findings.json after a generator change.
known findings: searched on the current tree; fixed findings: the fix commit is reverse-applied to /repo for
the search and restored afterwards.  usage: regen_reproducers.py [property-id ...]"""
import json, subprocess, sys
def sh(c): return subprocess.run(c, shell=True, capture_output=True, text=True)
ids = set(sys.argv[1:])
kf = json.load(open('/verif/known_findings.json'))
assert sh("git -C /repo diff --quiet").returncode == 0, "/repo dirty"
for f in kf['findings']:
    if ids and f['property'] not in ids: continue
    exe = "/verif/target/debug/vtrace" if f['property'] == 'C20' else "/verif/target/debug/vcheck"
    if f['property'] == 'C20' or f['property'].endswith('-tracing'):
        f['gen_version'] = int(sh('/verif/target/debug/vcheck genversion').stdout)  # replayed as is: `vtrace` has no `find`
        continue
    try:
        if f['kind'] == 'fixed':
            r = sh(f"cd /repo && git show {f['commit']} -- src | git apply -R"); assert r.returncode == 0, r.stderr
        b = sh("cd /verif && cargo build --offline -p vlab 2>&1 | tail -1")
        r = sh(f"{exe} find {f['property']} '{f['signature']}' 300000")
        if r.returncode == 0:
            f['reproducer'] = json.loads(r.stdout.strip().splitlines()[-1]); f['gen_version'] = int(sh('/verif/target/debug/vcheck genversion').stdout); print("regenerated", f['property'], f['signature'])
        else:
            print("NOT FOUND", f['property'], f['signature'], r.stderr[-200:])
    finally:
        sh("git -C /repo checkout -- .")
json.dump(kf, open('/verif/known_findings.json', 'w'), indent=1)
sh("cd /verif && cargo build --offline -p vlab")
