#!/usr/bin/env python3
"""Regenerates MANIFEST.json from the table below (kept in one place so that it stays valid)."""
import json, subprocess

def sh(cmd):
    return subprocess.run(cmd, shell=True, capture_output=True, text=True).stdout.strip()

hook_commits = sh("git -C /repo log --format=%h --grep='^verif-hooks:' --reverse").split()

CHECKS = {
 # id: (engine, technique, level text, level note, design ref)
 "C01": ("RunnerLab+StreamLab", "PBT: streams recorded from the real runner under generated plans/schedules and directly generated contract-abiding streams are fed to 13 built-in stats pipelines and to Cucumber::run_and_exit over a replaying runner; verdict recomputed from the stream (reference model), both directions checked in every case",
         "execution_has_failed(), the run_and_exit panic and the libtest suite line agree with a verdict recomputed from the event stream for generated outcomes x retry budgets x hooks x pipelines x interleavings. Known finding D2 (hook failure in a non-final attempt) is excluded by construction and counted.",
         "Final = retries None or left == 0 or NotFound (reading R1). User code -> stream is decided by C02/C10.", "6/C01"),
 "C11": ("StreamLab", "PBT over random happened-before-respecting linearisations of generated run trees; validity predicate evaluated after every handle_event call of Normalize<Recorder>; all linearisations of small trees enumerated",
         "Losslessness, nesting/contiguity, per-attempt order, immediate forwarding, promptness (R6) and pass-through of sequential streams checked call by call for generated interleavings, including ones runner::Basic never produces; bounded-exhaustive for small trees.",
         "Promptness follows reading R6.", "6/C11"),
 "C12": ("StreamLab", "PBT: independent recount of generated normalised streams vs Summarize counters, getters and the parsed-back summary text, with and without Repeat",
         "Counters, scenario classification, replay-insensitivity and the single summary write compared with an independent recount for generated streams covering every outcome path. Known findings D2/D5 excluded by construction and counted.",
         "Aborted retry chains unconstrained (reading R2).", "6/C12"),
 "C14": ("StreamLab", "PBT with parse-back: output of Normalize<Basic|Libtest|Json|JUnit> for generated streams (Basic with colours off and, rendered through a VT interpreter, with colours on) is parsed by hand-written line / RFC 8259 JSON / XML 1.0 parsers into fact multisets and compared with the stream's facts in both directions; well-formedness, started/result pairing and suite totals checked, incl. the [Summary] totals of the default terminal reporter Summarize<Normalize<Basic>> against the report's entries",
         "Every executed step, failed hook and parser error appears exactly once with the right status and message, nothing else appears, documents are well-formed and totals agree with entries, for generated streams with decorated names, path-less features, same-named scenarios, retries, hook failures and reporter options. Known finding D7 (JUnit drops the output of skipped testcases) is reported as KNOWN-FINDING.",
         "Message identity is checked through generated unique tokens; libtest totals follow reading R4.", "6/C14"),
 "C13": ("StreamLab", "PBT with a reference interpreter of 20 compiled writer nestings (FailOnSkipped/Repeat/Tee/Or/discard) over recorder leaves, replaced by their clone in mid-run in every other case; arbitrary (also non-contract) streams; stats algebra checked with arbitrary leaf stats",
         "Every recorder leaf's exact event/write sequence and the combined statistics equal the reference interpreter's prediction for generated streams and all zoo nestings.",
         "Nestings are a fixed zoo of 20 type-checking compositions.", "6/C13"),
 "C02": ("RunnerLab", "model-based PBT: generated features x outcome plans x harness-owned schedules against the real runner; per-attempt reference automaton + fault accounting; proptest generation/shrinking; bounded-exhaustive schedule DFS for small cases; a second campaign applies the automaton to the crate built with its `tracing` feature (vtrace: no event of an attempt, Log included, after its Finished)",
         "Every attempt observed in thousands of generated runs (all outcome kinds at every position, hooks, retries, concurrent interleavings chosen by the harness) equals the prediction of an independent reference model of one attempt; all schedules of small cases enumerated. Exploration: evidence within the generated bounds, no proof. Known finding D11 (tracing build: a log from outside every scenario's span delivered to an attempt after its Finished, within the window before the main loop reads its completion) is reported as KNOWN-FINDING.",
         "Shared background steps / World::new are judged by admissibility + global accounting. Trusts the harness driver and the 60-line model.", "6/C02"),
 "C03": ("RunnerLab", "PBT with validity predicate over the whole event stream (framing / bracket nesting / ParsingFinished counts) under generated parser behaviours and schedules; exhaustive schedules of small cases; a second campaign applies the same predicate to the crate built with its `tracing` feature (vtrace: log bursts, child spans outliving their step, logs from detached threads)",
         "Validity predicate over the full stream for generated feature sets (empty features/rules, parser errors, lazy delivery, retries, fail-fast) under harness-chosen completion orders.",
         "ParsingFinished.steps compared with scenario steps only (reading R3).", "6/C03"),
 "C04": ("RunnerLab", "PBT over lazy parser streams (items behind gates released at harness-chosen quiescent points) with set-equality oracle, bounded-progress termination criteria (H1 idle-turn hook, stall detection), a starvation predicate (a ready scenario with a free slot is started without waiting for the attempts in flight) and a resumption invariant (every future whose gate the schedule opened has been polled again before the runner goes quiet); a second campaign judges termination on the crate built with its `tracing` feature (vtrace, callbacks leaving child spans alive)",
         "Started set == supplied set, and termination judged by logical criteria (idle-turn hook, stall with nothing pending) over generated parser delays, retry delays and schedules. Liveness is checked as bounded progress only.",
         "Termination = bounded progress; H1 hook limit 10000 idle turns per poll.", "6/C04"),
 "C05": ("RunnerLab", "PBT with chain model over per-attempt outcome sequences (budget from tags/CLI/builder/closure), sound lower bound on retry delay from harness clock; clock-free stall check (woken callbacks of other attempts are resumed while a retry delay is outstanding)",
         "Retry chains (count, counters, exactly-on-failure, sequential, delay lower bound) checked against the reference model for generated budgets, failure positions and schedules.",
         "Delay is asserted as a lower bound with real 1-4 ms sleeps.", "6/C05"),
 "C06": ("RunnerLab", "PBT with prefix invariant (in-flight <= limit in stream and in callback log) and refill predicate at harness quiescent points; exhaustive completion orders of small cases",
         "In-flight bound over every stream prefix and callback-log instant, refill after each completion, strict sequencing at limit 1; all completion orders for small cases.",
         "Refill obligation evaluated under reading R5.", "6/C06"),
 "C07": ("RunnerLab", "PBT with interval-exclusion oracle in stream, callback log and dispatch hook (H2) under lazy delivery, delayed serial retries and harness-chosen schedules incl. sleeping past retry deadlines; a second campaign applies the stream oracle to the crate built with its `tracing` feature (vtrace)",
         "No foreign scenario event / user callback / dispatch inside any serial attempt, for generated mixes of serial and concurrent scenarios, lazy parsers, delayed retries; exhaustive schedules of small cases.",
         "Retry deadlines use real time; the driver may sleep past them as a schedule action.", "6/C07"),
 "C08": ("RunnerLab", "PBT with dispatch-cut oracle (H2 batches vs the H4 announcement and the H3 observation of the first final failure), bracket closure predicate and metamorphic fail-fast/normal pair; a second campaign on the crate built with its `tracing` feature (vtrace)",
         "After the main loop observed a final failure nothing is dispatched; everything started finishes; brackets close; failure-free runs equal normal runs (metamorphic).",
         "Uses hooks H2/H3/H4 for the dispatch order (no shared clock between stream and dispatch).", "6/C08"),
 "C09": ("RunnerLab", "PBT with invariants over World-instance groups of the callback log (instance ids, mutation counters, hook arguments, ScenarioFinished reason) joined with the attempt model",
         "World identity / state threading / hook contract checked from an instrumented World and hooks for generated shapes, failures in hooks and World::new, interleaved attempts.",
         "Attribution of background-step callbacks through World ids.", "6/C09"),
 "C10": ("RunnerLab", "fault-injection PBT: panics with String/&str/custom/i32 payloads (inside the future or synchronously before it is returned, also in World::new) and World::new errors at generated positions; token accounting + panic-hook probe; macro-defined steps returning Err (all return-type spellings of the C19 zoo) run through the real runner",
         "Every injected fault is reported exactly once with its payload, attempts complete, nothing escapes the stream, the panic hook is silent during and restored after the run.",
         "'prints nothing' is observed through a probe panic hook, not by capturing stderr.", "6/C10"),
 "C15": ("FuncLab", "PBT with reference evaluator: generated tagged feature sets x (--name regex, --tags AST, closure) presence combinations through Cucumber::custom(VecParser, RecordingRunner).filter_run; expected feature list computed independently and compared with gherkin::Feature equality; TagOperation::eval and the textual tag-expression parser vs a reference boolean evaluator",
         "The runner receives exactly the features with exactly the accepted scenarios in order and everything else intact, for generated tags on all levels and all eight combinations of the three filter sources; the boolean evaluator agrees with a reference on random formulas.",
         "Closures are drawn from a small family (line residue classes).", "6/C15"),
 "C16": ("FuncLab", "differential PBT: grammar-generated .feature files on disk through parser::Basic (selected by directory path, by the --input glob, or file by file) vs single-pass reference substitution over the gherkin crate's own unexpanded parse",
         "One scenario per data row, in order and place, with names / step texts / doc strings / table cells substituted, tags appended, distinct positions, and exactly one error naming an unknown placeholder, for generated outlines with hostile values and placeholder shapes.",
         "Trusts the external gherkin crate's unexpanded parse; generator asserts it contains the outlines it wrote.", "6/C16"),
 "C17": ("FuncLab", "differential PBT: step::Collection::find vs regex::Regex::{is_match, captures, capture_names} over grammar-generated definition sets registered in two permutations; chosen fn pointers invoked and identified",
         "Keyword scoping, not-found / single / ambiguous verdicts, candidate list order, capture texts and names (empty for non-participating groups) and registration-order independence hold against the regex crate's own API for generated definitions and texts.",
         "The regex crate's public matching API is the reference.", "6/C17"),
 "C18": ("FuncLab+RunnerLab", "exhaustive enumeration of the 28 800-case tag x CLI product plus PBT over random tags / durations / filter ASTs against a reference resolver; CLI-over-builder merge observed on real runs (tags mode) through the C05/C06/C08 oracles",
         "parse_from_tags equals the documented resolution on the complete product of tag forms, placements and CLI values and on random cases; merge of CLI and builder values is observed on generated real runs.",
         "Undocumented retry-prefixed tags only must not panic (R7).", "6/C18"),
 "C19": ("FuncLab", "PBT over step texts (looked up through World::collection() and through its clone) against a compiled zoo of 45 attribute/function pairs with hand-written reference matchers and argument decoders, and against a second zoo of 40 functions generated at build time (harness/build.rs, VERIF_ZOO_SEED; thorough tier: seeds 0..6) with a generic reference computed from the generator's metadata; inventory counted per keyword",
         "Registration (count per keyword, reachability), literal / regex / expr matching as written, typed argument delivery in declaration order, slices, #[step] argument, custom Parameters, and failure on parse errors / returned Err hold for the zoo over generated and mutated texts.",
         "The quantifier over programs is a fixed representative zoo plus build-time generated zoos (macro expansion is compile time).", "6/C19"),
 "C20": ("vtrace", "PBT with token accounting: generated RunnerLab cases whose callbacks emit uniquely tokenised tracing events before and after gate awaits; real Cucumber::run with init_tracing() polled by hand in one child process per case under harness-chosen schedules",
         "Every emitted log is delivered exactly once as a Log event of the emitting attempt, after the emitting step's / hook's Started and before its result, for generated concurrency, retries and schedules. Known finding D8 (after-hook logs precede the hook's Started event) reported as KNOWN-FINDING.",
         "Quiescence in the tracing build = 48 polls without activity (the runner wakes itself every poll).", "6/C20"),
}

def entry(pid):
    eng, tech, text, note, ref = CHECKS[pid]
    return {
        "property_id": pid,
        "quick_cmd": f"./check {pid} quick",
        "thorough_cmd": f"./check {pid} thorough",
        "evidence_file": f"/verif/evidence/{pid}.json",
        "replay_cmd_template": f"./check {pid} --replay {{path}}",
        "engine": eng,
        "level_claimed": {"category": "exploration", "text": text, "design_ref": f"DESIGN.md section {ref}"},
        "level_note": note,
        "technique": tech + ("" if pid == "C20" else "; thorough tier adds a coverage-guided libFuzzer campaign (cargo-fuzz, 8 jobs x 40000 runs) over the same tape decoders and oracles, corpus seeded with the stored regression inputs"),
    }

all_ids = [f"C{i:02d}" for i in range(1, 21)]
manifest = {
    "version": 1,
    "setup_cmd": "./setup.sh",
    "hooks": {
        "guard": "cargo feature `verif-hooks` of the cucumber crate (off by default)",
        "enable": "the harness crates depend on cucumber = { path = \"/repo\", features = [\"verif-hooks\", ...] }",
        "baseline_off_cmd": "cd /repo && cargo test --workspace --no-fail-fast --offline",
        "source_commits": hook_commits,
        "add_only": True,
    },
    "engines": [
        {"name": "RunnerLab", "path": "/verif/harness/src/lab", "serves_properties": [p for p in all_ids if p in CHECKS and "RunnerLab" in CHECKS[p][0]], "kind_free_text": "real runner::Basic polled by a hand-written executor (a third of the cases through the Cucumber facade, builder calls in permuted order); gates in user callbacks and parser stream; schedule is a generated input"},
        {"name": "StreamLab", "path": "/verif/harness/src/stream", "serves_properties": [p for p in all_ids if p in CHECKS and "StreamLab" in CHECKS[p][0]], "kind_free_text": "generated contract-abiding event streams fed to the real writers"},
        {"name": "vtrace", "path": "/verif/harness-tracing", "serves_properties": ["C20"], "kind_free_text": "RunnerLab driver over Cucumber::run with the tracing feature; one process per case"},
        {"name": "FuncLab", "path": "/verif/harness/src/func", "serves_properties": [p for p in all_ids if p in CHECKS and "FuncLab" in CHECKS[p][0]], "kind_free_text": "pure-function differential / reference-model checks"},
    ],
    "checks": [entry(p) for p in all_ids if p in CHECKS],
    "not_applicable": [{"property_id": p, "reason": "check not built yet in this revision of /verif (planned, see DESIGN.md section 6)"} for p in all_ids if p not in CHECKS],
    "notes": "All checks: ./check <ID> quick|thorough ; exit 0 held / 1 VIOLATION / 2 harness error or inconclusive. Known findings: /verif/known_findings.json. fix: commits in /repo: 206d04b 547dd40 fb649a0 8922cb4 611e938 2cff8d7 1aec4d9 (DESIGN.md section 8).",
}
json.dump(manifest, open("/verif/MANIFEST.json", "w"), indent=1)
print("wrote MANIFEST.json with", len(manifest["checks"]), "checks")
