//! The "choice tape": every generated case is a pure function of two vectors of `u32`.
//!
//! * index mapping is monotone (`x * n >> 32`), so shrinking a value towards 0 moves the
//!   choice towards the first (simplest) alternative;
//! * reading past the end yields 0.

#[derive(Clone, Debug)]
pub struct Tape {
    v: Vec<u32>,
    i: usize,
}

impl Tape {
    pub fn new(v: Vec<u32>) -> Self {
        Self { v, i: 0 }
    }

    pub fn raw(&mut self) -> u32 {
        let x = self.v.get(self.i).copied().unwrap_or(0);
        self.i += 1;
        x
    }

    /// Uniform choice in `0..n` (0 if `n <= 1`, consuming nothing).
    pub fn pick(&mut self, n: usize) -> usize {
        if n <= 1 {
            return 0;
        }
        ((u64::from(self.raw()) * n as u64) >> 32) as usize
    }

    /// True with probability `num/den`. The all-zero tape answers `true` iff `num > 0`;
    /// callers put the *simpler* alternative on the `true` side where it matters, or use
    /// [`Tape::rare`].
    pub fn chance(&mut self, num: u32, den: u32) -> bool {
        (self.pick(den as usize) as u32) < num
    }

    /// True with probability `num/den`, false on the all-zero tape.
    pub fn rare(&mut self, num: u32, den: u32) -> bool {
        (self.pick(den as usize) as u32) >= den - num
    }

    /// Uniform in `lo..=hi`.
    pub fn range(&mut self, lo: usize, hi: usize) -> usize {
        lo + self.pick(hi - lo + 1)
    }

    /// Index chosen with the given weights (first non-zero weight on the zero tape).
    pub fn weighted(&mut self, weights: &[u32]) -> usize {
        let total: u32 = weights.iter().sum();
        if total == 0 {
            return 0;
        }
        let mut x = self.pick(total as usize) as u32;
        for (i, w) in weights.iter().enumerate() {
            if x < *w {
                return i;
            }
            x -= w;
        }
        weights.len() - 1
    }

    pub fn consumed(&self) -> usize {
        self.i
    }

    pub fn exhausted(&self) -> bool {
        self.i >= self.v.len()
    }
}

pub fn splitmix(seed: &mut u64) -> u64 {
    *seed = seed.wrapping_add(0x9E37_79B9_7F4A_7C15);
    let mut z = *seed;
    z = (z ^ (z >> 30)).wrapping_mul(0xBF58_476D_1CE4_E5B9);
    z = (z ^ (z >> 27)).wrapping_mul(0x94D0_49BB_1331_11EB);
    z ^ (z >> 31)
}

pub fn mix(a: u64, b: u64) -> u64 {
    let mut s = a ^ b.wrapping_mul(0x9E37_79B9_7F4A_7C15);
    splitmix(&mut s)
}

pub fn tape_from_seed(seed: u64, len: usize) -> Vec<u32> {
    let mut s = seed;
    (0..len).map(|_| splitmix(&mut s) as u32).collect()
}

/// FNV-1a, used for hashing canonical case descriptions (stable across processes).
pub fn fnv(bytes: &[u8]) -> u64 {
    let mut h: u64 = 0xcbf2_9ce4_8422_2325;
    for b in bytes {
        h ^= u64::from(*b);
        h = h.wrapping_mul(0x0000_0100_0000_01B3);
    }
    h
}

pub fn hash_str(s: &str) -> u64 {
    fnv(s.as_bytes())
}
