//! Small reference models written from the documentation / property texts, independent of the
//! code under test.

use std::time::Duration;

use cucumber::gherkin::tagexpr::TagOperation;

/// Reference evaluation of a tag expression: an ordinary boolean formula over tag membership.
pub fn eval_tagexpr(op: &TagOperation, tags: &[String]) -> bool {
    match op {
        TagOperation::And(l, r) => eval_tagexpr(l, tags) && eval_tagexpr(r, tags),
        TagOperation::Or(l, r) => eval_tagexpr(l, tags) || eval_tagexpr(r, tags),
        TagOperation::Not(x) => !eval_tagexpr(x, tags),
        TagOperation::Tag(t) => tags.iter().any(|x| x == t),
    }
}

pub fn render_tagexpr(op: &TagOperation) -> String {
    match op {
        TagOperation::And(l, r) => format!("({} and {})", render_tagexpr(l), render_tagexpr(r)),
        TagOperation::Or(l, r) => format!("({} or {})", render_tagexpr(l), render_tagexpr(r)),
        TagOperation::Not(x) => format!("(not {})", render_tagexpr(x)),
        TagOperation::Tag(t) => format!("@{t}"),
    }
}

/// Effective retry configuration (after merging CLI over builder).
#[derive(Clone, Debug, Default)]
pub struct RetryCfg {
    pub retry: Option<usize>,
    pub after: Option<Duration>,
    pub filter: Option<TagOperation>,
}

/// One of the four documented retry tag forms, parsed by hand (no regex, no code shared with
/// the crate): `retry`, `retry(N)`, `retry.after(D)`, `retry(N).after(D)`.
/// Returns `None` if `tag` is not exactly one of these forms.
pub fn parse_retry_tag(tag: &str) -> Option<(Option<usize>, Option<Duration>)> {
    let rest = tag.strip_prefix("retry")?;
    let (num, rest) = if let Some(r) = rest.strip_prefix('(') {
        let close = r.find(')')?;
        let digits = &r[..close];
        if digits.is_empty() || !digits.bytes().all(|b| b.is_ascii_digit()) {
            return None;
        }
        (Some(digits.parse::<usize>().ok()?), &r[close + 1..])
    } else {
        (None, rest)
    };
    if rest.is_empty() {
        return Some((num, None));
    }
    let r = rest.strip_prefix(".after(")?;
    let close = r.find(')')?;
    if close + 1 != r.len() {
        return None;
    }
    let d = humantime::parse_duration(&r[..close]).ok()?;
    Some((num, Some(d)))
}

/// Reference resolver of C18, from `book/src/writing/retries.md` and the property text.
pub fn resolve_retry(
    feature_tags: &[String],
    rule_tags: Option<&[String]>,
    scenario_tags: &[String],
    cfg: &RetryCfg,
) -> Option<(usize, Option<Duration>)> {
    let first = |tags: &[String]| tags.iter().find_map(|t| parse_retry_tag(t));
    let nearest = first(scenario_tags).or_else(|| rule_tags.and_then(first)).or_else(|| first(feature_tags));
    match nearest {
        Some((n, d)) => Some((n.or(cfg.retry).unwrap_or(1), d.or(cfg.after))),
        None => {
            let applies = match &cfg.filter {
                Some(f) => {
                    let mut all: Vec<String> = scenario_tags.to_vec();
                    all.extend(rule_tags.unwrap_or(&[]).iter().cloned());
                    all.extend(feature_tags.iter().cloned());
                    eval_tagexpr(f, &all)
                }
                None => cfg.retry.is_some() || cfg.after.is_some(),
            };
            applies.then(|| (cfg.retry.unwrap_or(1), cfg.after))
        }
    }
}
