//! `vlab`: property-based testing / fuzzing machinery for cucumber-rs (see /verif/DESIGN.md).
#![allow(clippy::too_many_lines, clippy::type_complexity)]

pub mod engine;
pub mod func;
pub mod lab;
pub mod refmodel;
pub mod stream;
pub mod tape;

/// Registry of all properties.
pub fn property(id: &str) -> Option<Box<dyn engine::Property>> {
    match id {
        "C02" | "C03" | "C04" | "C05" | "C06" | "C07" | "C08" | "C09" | "C10" => {
            let id: &'static str = Box::leak(id.to_string().into_boxed_str());
            Some(Box::new(lab::props::LabProp { id }))
        }
        "C01" | "C11" | "C12" | "C13" | "C14" => {
            let id: &'static str = Box::leak(id.to_string().into_boxed_str());
            Some(Box::new(stream::props::StreamProp { id }))
        }
        "C15" | "C16" | "C17" | "C18" | "C19" => {
            let id: &'static str = Box::leak(id.to_string().into_boxed_str());
            Some(Box::new(func::props::FuncProp { id }))
        }
        _ => None,
    }
}
