//! C19, second zoo: step-attribute functions *generated at build time* (`build.rs`, seed
//! `VERIF_ZOO_SEED`), each with the metadata a generic reference needs: the quantifier "every
//! annotated function signature" is sampled over programs, not only over the hand-written zoo.

#![allow(clippy::needless_pass_by_value, clippy::unused_async, clippy::unnecessary_wraps, clippy::useless_format, clippy::too_many_arguments)]

use cucumber::{
    World,
    codegen::{StepConstructor as _, WorldInventory, inventory},
    gherkin::{self, Step, StepType},
    given, then, when,
};
use futures::executor::block_on;
use serde_json::{Value, json};

use crate::{engine::Violation, tape::Tape};

#[derive(Debug, Default, World)]
pub struct ZW2 {
    pub log: Vec<String>,
}

fn rec2(w: &mut ZW2, s: String) {
    w.log.push(s);
}

pub type Zoo2Result = Result<(), Box<dyn std::error::Error>>;

#[derive(Clone, Copy, Debug, PartialEq, Eq)]
pub enum P2 {
    U8,
    U32,
    I64,
    F64,
    Word,
    Quoted,
    Any,
}

pub struct Entry2 {
    pub func: &'static str,
    /// 0 given, 1 when, 2 then
    pub kws: &'static [usize],
    /// reference regex, written by the generator from the attribute as documented
    pub re: &'static str,
    /// 0 literal, 1 regex, 2 expr
    pub kind: u8,
    pub params: &'static [P2],
    pub slice: bool,
    pub with_step: bool,
    pub fallible: bool,
    pub template: &'static str,
}

include!(concat!(env!("OUT_DIR"), "/zoo2_gen.rs"));

fn v(sig: &str, msg: String) -> Violation {
    Violation::new(format!("C19/generated-zoo/{sig}"), msg)
}

const WORDS: &[&str] = &["alice", "Bob", "x1", "ünï", "under_score", "a", "13", "w13w"];
const QUOTED: &[&str] = &["\"hello\"", "'single'", "\"\"", "\"uni ☕\"", "\"two words\"", "'13'"];
const ANY: &[&str] = &["at all", "", "multi word  text", "émoji ☕", "13 goes"];

fn fill(t: &mut Tape, tpl: &str) -> String {
    let mut out = String::new();
    let mut rest = tpl;
    while let Some(i) = rest.find('{') {
        out.push_str(&rest[..i]);
        let kind = rest.get(i..i + 3).unwrap_or("");
        match kind {
            "{n}" => out.push_str(&[t.pick(10), t.pick(256), t.pick(70000), 13, 300][t.pick(5)].to_string()),
            "{w}" => out.push_str(WORDS[t.pick(WORDS.len())]),
            "{f}" => out.push_str(&format!("{}{}.{}", if t.chance(1, 4) { "-" } else { "" }, t.pick(100), t.pick(1000))),
            "{q}" => out.push_str(QUOTED[t.pick(QUOTED.len())]),
            "{x}" => out.push_str(ANY[t.pick(ANY.len())]),
            _ => {
                out.push('{');
                rest = &rest[i + 1..];
                continue;
            }
        }
        rest = &rest[i + 3..];
    }
    out.push_str(rest);
    out
}

fn mutate(t: &mut Tape, s: String) -> String {
    match t.pick(12) {
        0 => format!("{s} trailing"),
        1 => format!("leading {s}"),
        2 => s.to_uppercase(),
        3 => s.replacen(' ', "  ", 1),
        4 => format!(" {s}"),
        5 => {
            let cuts: Vec<usize> = s.char_indices().map(|(i, _)| i).skip(1).collect();
            if cuts.is_empty() { s } else { s[..cuts[t.pick(cuts.len())]].to_string() }
        }
        6 => {
            let cuts: Vec<usize> = s.char_indices().map(|(i, _)| i).skip(1).collect();
            if cuts.is_empty() { s } else { s[cuts[t.pick(cuts.len())]..].to_string() }
        }
        7 if s.contains('|') => {
            let parts: Vec<&str> = s.split('|').collect();
            parts[t.pick(parts.len())].to_string()
        }
        _ => s,
    }
}

fn step(kw: usize, text: &str) -> gherkin::Step {
    let (k, ty) = [("Given ", StepType::Given), ("When ", StepType::When), ("Then ", StepType::Then)][kw];
    gherkin::Step { keyword: k.into(), ty, value: text.into(), docstring: None, table: None, span: gherkin::Span::default(), position: gherkin::LineCol { line: 7, col: 5 } }
}

/// Values of the parameters' capture groups in order (an expression's `{string}` has two groups of
/// which one participates).
fn group_values(e: &Entry2, caps: &regex::Captures<'_>) -> Vec<String> {
    let mut g = 1;
    let mut out = vec![];
    for p in e.params {
        if e.kind == 2 && *p == P2::Quoted {
            let a = caps.get(g).map(|m| m.as_str());
            let b = caps.get(g + 1).map(|m| m.as_str());
            out.push(a.or(b).unwrap_or("").to_string());
            g += 2;
        } else {
            out.push(caps.get(g).map_or("", |m| m.as_str()).to_string());
            g += 1;
        }
    }
    out
}

/// The line the function must record, or `None` if the step must fail (a capture does not parse
/// into the parameter type, or the function returns `Err`).
fn expected(e: &Entry2, caps: &regex::Captures<'_>, text: &str) -> Option<String> {
    let vals = group_values(e, caps);
    let mut parts: Vec<String> = vec![];
    for (p, s) in e.params.iter().zip(&vals) {
        parts.push(match p {
            P2::U8 => format!("{:?}", s.parse::<u8>().ok()?),
            P2::U32 => format!("{:?}", s.parse::<u32>().ok()?),
            P2::I64 => format!("{:?}", s.parse::<i64>().ok()?),
            P2::F64 => format!("{:?}", s.parse::<f64>().ok()?),
            P2::Word | P2::Quoted | P2::Any => format!("{s:?}"),
        });
    }
    let mut line = if e.slice { format!("{}([{}]", e.func, parts.join(", ")) } else { format!("{}({}", e.func, parts.join(",")) };
    if e.with_step {
        line.push_str(&format!("|step={}", text.chars().count()));
    }
    line.push(')');
    if e.fallible && line.contains("13") {
        return None;
    }
    Some(line)
}

pub fn check_registration(es: &[Entry2]) -> Vec<Violation> {
    let mut viol = vec![];
    let regs = |kw: usize| -> Vec<String> {
        match kw {
            0 => inventory::iter::<<ZW2 as WorldInventory>::Given>.into_iter().map(|s| s.inner().1().as_str().to_string()).collect(),
            1 => inventory::iter::<<ZW2 as WorldInventory>::When>.into_iter().map(|s| s.inner().1().as_str().to_string()).collect(),
            _ => inventory::iter::<<ZW2 as WorldInventory>::Then>.into_iter().map(|s| s.inner().1().as_str().to_string()).collect(),
        }
    };
    for kw in 0..3 {
        let registered = regs(kw);
        let expected = es.iter().filter(|e| e.kws.contains(&kw)).count();
        if registered.len() != expected {
            viol.push(v("registration-count", format!("keyword #{kw}: {} definitions in the inventory of the generated zoo (seed {ZOO2_SEED}), it has {expected} attributes of that keyword; regexes: {registered:?}", registered.len())));
        }
    }
    viol
}

pub struct Out2 {
    pub violations: Vec<Violation>,
    pub nontrivial: bool,
    pub labels: Vec<&'static str>,
    pub sample: Value,
}

pub fn check(t: &mut Tape, n_texts: usize) -> Out2 {
    thread_local! {
        static ES: Vec<Entry2> = entries2();
        static COLL: cucumber::step::Collection<ZW2> = ZW2::collection();
        static COLL_CLONE: cucumber::step::Collection<ZW2> = ZW2::collection().clone();
        static RES: Vec<regex::Regex> = entries2().iter().map(|e| regex::Regex::new(e.re).unwrap()).collect();
    }
    if t.chance(1, 3) {
        ES.with(|es| COLL_CLONE.with(|coll| RES.with(|res| check_with(t, n_texts, es, coll, res))))
    } else {
        ES.with(|es| COLL.with(|coll| RES.with(|res| check_with(t, n_texts, es, coll, res))))
    }
}

fn check_with(t: &mut Tape, n_texts: usize, es: &[Entry2], coll: &cucumber::step::Collection<ZW2>, res: &[regex::Regex]) -> Out2 {
    let mut viol = vec![];
    let mut labels = vec![];
    let mut nontrivial = false;
    let mut rows = vec![];
    for _ in 0..n_texts {
        let ei = t.pick(es.len());
        let e = &es[ei];
        let filled = if e.kind == 0 { e.template.to_string() } else { fill(t, e.template) };
        let text = mutate(t, filled);
        let kw = if t.chance(1, 5) { t.pick(3) } else { e.kws[t.pick(e.kws.len())] };
        let cand: Vec<usize> = (0..es.len()).filter(|i| es[*i].kws.contains(&kw) && res[*i].is_match(&text)).collect();
        let got = coll.find(&step(kw, &text));
        let mut row = json!({"keyword": kw, "text": text, "candidates": cand.iter().map(|i| es[*i].func).collect::<Vec<_>>()});
        match (cand.len(), got) {
            (0, Ok(None)) => labels.push("zoo2_no_match"),
            (0, Ok(Some((_, _, loc, _)))) => viol.push(v("unexpected-match", format!("keyword #{kw} `{text}` matches no attribute of the generated zoo (seed {ZOO2_SEED}) as written, but find() chose the definition at {loc:?}"))),
            (0, Err(err)) => viol.push(v("unexpected-match", format!("keyword #{kw} `{text}`: unexpected ambiguity {err}"))),
            (1, Ok(Some((f, _, _, ctx)))) => {
                let e = &es[cand[0]];
                let caps = res[cand[0]].captures(&text).unwrap();
                let exp = expected(e, &caps, &text);
                let mut w = ZW2::default();
                let r = std::panic::catch_unwind(std::panic::AssertUnwindSafe(|| block_on(f(&mut w, ctx))));
                row["expected"] = json!(exp);
                row["log"] = json!(w.log);
                match (&exp, r) {
                    (Some(line), Ok(())) => {
                        labels.push("zoo2_dispatched");
                        if !e.params.is_empty() {
                            nontrivial = true;
                        }
                        if w.log != vec![line.clone()] {
                            viol.push(v("arguments", format!("keyword #{kw} `{text}` -> `{}` (seed {ZOO2_SEED}, attribute meaning `{}`): function recorded {:?}, expected [{line:?}]", e.func, e.re, w.log)));
                        }
                    }
                    (Some(line), Err(_)) => viol.push(v("unexpected-step-failure", format!("keyword #{kw} `{text}` -> `{}` (seed {ZOO2_SEED}, `{}`): the step panicked, expected the call {line}", e.func, e.re))),
                    (None, Err(_)) => {
                        labels.push("zoo2_parse_failure_or_err_fails_step");
                        nontrivial = true;
                    }
                    (None, Ok(())) => viol.push(v("failure-ignored", format!("keyword #{kw} `{text}` -> `{}` (seed {ZOO2_SEED}, `{}`): an unparsable capture / returned Err must make the step fail, but it completed (log {:?})", e.func, e.re, w.log))),
                }
            }
            (1, other) => viol.push(v("missed-match", format!("keyword #{kw} `{text}` matches `{}` (seed {ZOO2_SEED}, `{}`) as written, but find() gave {:?}", es[cand[0]].func, es[cand[0]].re, other.map(|o| o.is_some()).map_err(|e| e.to_string())))),
            (n, Err(_)) if n >= 2 => labels.push("zoo2_ambiguous"),
            (n, other) => viol.push(v("ambiguity-missed", format!("keyword #{kw} `{text}` matches {n} generated attributes {:?}, but find() gave {:?}", cand.iter().map(|i| es[*i].func).collect::<Vec<_>>(), other.map(|o| o.is_some()).map_err(|e| e.to_string())))),
        }
        rows.push(row);
    }
    labels.sort_unstable();
    labels.dedup();
    Out2 { violations: viol, nontrivial, labels, sample: json!({"generated_zoo_seed": ZOO2_SEED, "steps": rows}) }
}
