//! FuncLab: pure-function properties (C15 filtering, C16 outline expansion, C17 step matching,
//! C18 retry option resolution, C19 step attributes).

pub mod c15;
pub mod c16;
pub mod c17;
pub mod c18;
pub mod c19;
pub mod zoo;
pub mod zoo2;
pub mod props;
