//! C16: scenario outlines expand to one correctly substituted scenario per example row.
//! Files are generated on disk and read back through `parser::Basic`; the reference works on
//! the *unexpanded* parse of the same file by the `gherkin` crate (an external dependency).

use std::path::{Path, PathBuf};

use cucumber::{Parser as _, gherkin, parser};
use futures::{StreamExt as _, executor::block_on};
use serde_json::{Value, json};

use crate::{engine::Violation, tape::Tape};

fn v(sig: &str, msg: String) -> Violation {
    Violation::new(format!("C16/{sig}"), msg)
}

/// Independent single-pass substitution. A placeholder is `<name>` where `name` is a non-empty
/// run of characters that are neither whitespace nor `>`.
pub fn subst(s: &str, row: &[(String, String)], unknown: &mut Vec<String>) -> String {
    let cs: Vec<char> = s.chars().collect();
    let mut out = String::new();
    let mut i = 0;
    while i < cs.len() {
        if cs[i] == '<' {
            let mut j = i + 1;
            while j < cs.len() && !cs[j].is_whitespace() && cs[j] != '>' {
                j += 1;
            }
            if j < cs.len() && cs[j] == '>' && j > i + 1 {
                let name: String = cs[i + 1..j].iter().collect();
                match row.iter().find(|(k, _)| *k == name) {
                    Some((_, val)) => out.push_str(val),
                    None => unknown.push(name),
                }
                i = j + 1;
                continue;
            }
        }
        out.push(cs[i]);
        i += 1;
    }
    out
}

const COLS: &[&str] = &["a", "b", "c-d", "e.f", "ü", "n1", "A", "<lt"];
const VALS: &[&str] = &["1", "x y", "<a>", "$1", "a>b", "<", ">", r"\d+", "é", "", "<zz>", "$", "(", "{int}", "${a}", "<b>", "ab"];

pub struct Gen {
    pub text: String,
    pub outlines: usize,
    pub rows: usize,
    pub unknown_used: bool,
    pub header_only: bool,
    pub metachar_value: bool,
}

pub fn gen_feature(t: &mut Tape, idx: usize) -> Gen {
    let mut g = Gen { text: format!("Feature: file {idx}\n"), outlines: 0, rows: 0, unknown_used: false, header_only: false, metachar_value: false };
    let p_unknown = if t.chance(1, 5) { 30 } else { 0 }; // most files have no unknown placeholder
    let ph = |t: &mut Tape, g: &mut Gen| -> String {
        match t.pick(100) {
            x if x < p_unknown / 3 => {
                g.unknown_used = true;
                ["<nope>", "<Z>", "<a.>"][t.pick(3)].to_string()
            }
            5..=9 => "<a><b>".to_string(),
            10..=12 => "< a>".to_string(),
            13..=14 => "<>".to_string(),
            15..=17 => "<a> <a>".to_string(),
            18..=19 => "a < b > c".to_string(),
            // `<` is a legal character of a placeholder name: `<<a>` names the column `<a`
            20..=21 => {
                g.unknown_used = true;
                ["<<a>", "1<<n1>", "<a<b>"][t.pick(3)].to_string()
            }
            22..=23 => "<<lt>".to_string(),
            24..=40 => "plain".to_string(),
            _ => format!("<{}>", COLS[t.pick(COLS.len())]),
        }
    };
    if t.chance(1, 4) {
        g.text.push_str("\n  Background:\n    Given a background step\n");
    }
    let n_top = t.range(1, 3);
    let n_rule = t.pick(2);
    let mut blocks: Vec<(usize, bool)> = (0..n_top).map(|i| (i, false)).collect();
    for i in 0..n_rule {
        blocks.push((i, true));
    }
    let mut in_rule = false;
    for (si, rule) in blocks {
        let ind = if rule { "    " } else { "  " };
        if rule && !in_rule {
            g.text.push_str("\n  Rule: a rule\n");
            in_rule = true;
        }
        let outline = t.chance(3, 4);
        g.text.push('\n');
        if t.chance(1, 3) {
            g.text.push_str(&format!("{ind}@t1 @t2\n"));
        }
        let kw = if outline { ["Scenario Outline", "Scenario Template", "Scenario"][t.pick(3)] } else { "Scenario" };
        let name_ph = ph(t, &mut g);
        g.text.push_str(&format!("{ind}{kw}: sc{si} {name_ph}\n"));
        for st in 0..t.range(1, 3) {
            let (a, b) = (ph(t, &mut g), ph(t, &mut g));
            g.text.push_str(&format!("{ind}  {} step {st} {a} and {b}\n", ["Given", "When", "Then", "And"][if st == 0 { t.pick(3) } else { t.pick(4) }]));
            // a doc string, a data table, or (the gherkin crate's grammar allows it) both
            let (with_doc, with_table) = match t.pick(16) {
                0..=3 => (true, false),
                4..=6 => (false, true),
                7..=8 => (true, true),
                _ => (false, false),
            };
            if with_doc {
                let d = ph(t, &mut g);
                g.text.push_str(&format!("{ind}    \"\"\"\n{ind}    doc {d}\n{ind}      indented line\n{ind}    \"\"\"\n"));
            }
            if with_table {
                let (h, c) = (ph(t, &mut g), ph(t, &mut g));
                g.text.push_str(&format!("{ind}    | h {h} | k |\n{ind}    | {c} | v |\n"));
            }
        }
        if outline {
            g.outlines += 1;
            for _ in 0..t.range(1, 3) {
                if t.chance(1, 3) {
                    // table tags: own ones, tags the outline already carries, and repeated ones
                    let pool = ["@ex0", "@ex1", "@ex2", "@t1", "@t2"];
                    let n = t.range(1, 3);
                    let line: Vec<&str> = (0..n).map(|_| pool[t.pick(pool.len())]).collect();
                    g.text.push_str(&format!("{ind}  {}\n", line.join(" ")));
                }
                g.text.push_str(&format!("{ind}  Examples:{}\n", if t.chance(1, 4) { " named" } else { "" }));
                if t.chance(1, 5) {
                    g.text.push_str(&format!("{ind}    some description\n\n"));
                }
                if t.chance(1, 6) {
                    g.text.push_str(&format!("{ind}    # a comment\n"));
                }
                if t.chance(1, 8) {
                    // an `Examples:` block without any table (legal Gherkin): it contributes no
                    // rows and must not affect the blocks around it
                    g.header_only = true;
                    continue;
                }
                let nc = if t.chance(9, 10) { COLS.len() } else { t.range(1, 3) };
                let mut cs: Vec<&str> = vec![];
                let mut k = 0;
                while cs.len() < nc && k < 50 {
                    let c = COLS[t.pick(COLS.len())];
                    if !cs.contains(&c) {
                        cs.push(c);
                    }
                    k += 1;
                }
                if cs.len() < COLS.len() {
                    // some column is missing: a placeholder naming it is unknown for this table
                    g.unknown_used = true;
                }
                g.text.push_str(&format!("{ind}    | {} |\n", cs.join(" | ")));
                let nrows = t.pick(4);
                if nrows == 0 {
                    g.header_only = true;
                }
                g.rows += nrows;
                for _ in 0..nrows {
                    let row: Vec<&str> = (0..cs.len())
                        .map(|_| {
                            let val = VALS[t.pick(VALS.len())];
                            if val.contains(['<', '>', '$', '\\', '(', '{']) {
                                g.metachar_value = true;
                            }
                            val
                        })
                        .collect();
                    g.text.push_str(&format!("{ind}    | {} |\n", row.join(" | ")));
                }
            }
        }
    }
    g
}

/// Reference expansion of an unexpanded `gherkin::Feature`.
fn reference(parsed: &gherkin::Feature) -> Result<gherkin::Feature, Vec<String>> {
    let mut unknowns: Vec<String> = vec![];
    let mut expand = |scs: &[gherkin::Scenario]| -> Vec<gherkin::Scenario> {
        let mut out = vec![];
        for s in scs {
            if s.examples.is_empty() {
                out.push(s.clone());
                continue;
            }
            for ex in &s.examples {
                let Some(tb) = &ex.table else { continue };
                let Some((h, rows)) = tb.rows.split_first() else { continue };
                for (id, r) in rows.iter().enumerate() {
                    let row: Vec<(String, String)> = h.iter().cloned().zip(r.iter().cloned()).collect();
                    let mut e = s.clone();
                    e.tags.extend(ex.tags.iter().cloned());
                    // distinct synthetic position per row (checked separately for distinctness only)
                    e.position = ex.position;
                    e.position.line += id + 2;
                    e.name = subst(&e.name, &row, &mut unknowns);
                    for st in &mut e.steps {
                        st.value = subst(&st.value, &row, &mut unknowns);
                        if let Some(d) = &mut st.docstring {
                            *d = subst(d, &row, &mut unknowns);
                        }
                        if let Some(tb) = &mut st.table {
                            for rr in &mut tb.rows {
                                for c in rr {
                                    *c = subst(c, &row, &mut unknowns);
                                }
                            }
                        }
                    }
                    out.push(e);
                }
            }
        }
        out
    };
    let mut f = parsed.clone();
    f.scenarios = expand(&parsed.scenarios);
    for (r, pr) in f.rules.iter_mut().zip(&parsed.rules) {
        r.scenarios = expand(&pr.scenarios);
    }
    if unknowns.is_empty() { Ok(f) } else { Err(unknowns) }
}

pub struct Out {
    pub violations: Vec<Violation>,
    pub nontrivial: bool,
    pub labels: Vec<&'static str>,
    pub sample: Value,
    pub harness_error: Option<String>,
}

pub fn scratch_dir() -> PathBuf {
    PathBuf::from(format!("/verif/target/scratch/{}", std::process::id()))
}

pub fn check(t: &mut Tape, case_no: u64) -> Out {
    let dir = scratch_dir().join(format!("c{case_no}"));
    let _ = std::fs::remove_dir_all(&dir);
    if let Err(e) = std::fs::create_dir_all(&dir) {
        return Out { violations: vec![], nontrivial: false, labels: vec![], sample: json!(null), harness_error: Some(format!("cannot create scratch dir: {e}")) };
    }
    let nfiles = t.range(1, 3);
    let gens: Vec<Gen> = (0..nfiles).map(|i| gen_feature(t, i)).collect();
    for (i, g) in gens.iter().enumerate() {
        let _ = std::fs::write(dir.join(format!("f{i}.feature")), &g.text);
    }
    // the three ways `parser::Basic` can be pointed at feature files
    let mode = t.pick(3);
    let out = check_dir(&dir, &gens, mode);
    let _ = std::fs::remove_dir_all(&dir);
    out
}

/// `mode`: 0 = directory given as the input path, 1 = `--input <dir>/*.feature` glob on the command
/// line, 2 = every file given as the input path on its own.
fn check_dir(dir: &Path, gens: &[Gen], mode: usize) -> Out {
    let mut viol = vec![];
    let mut labels = vec![["input_directory", "input_cli_glob", "input_single_files"][mode]];
    let items: Vec<parser::Result<gherkin::Feature>> = match mode {
        0 => block_on(parser::Basic::new().parse(dir, parser::basic::Cli::default()).collect()),
        1 => {
            let glob = format!("{}/*.feature", dir.display());
            match glob.parse::<parser::basic::Walker>() {
                Ok(w) => block_on(parser::Basic::new().parse(dir, parser::basic::Cli { features: Some(w) }).collect()),
                Err(e) => return Out { violations: vec![], nontrivial: false, labels: vec![], sample: json!(null), harness_error: Some(format!("glob {glob} rejected: {e}")) },
            }
        }
        _ => (0..gens.len()).flat_map(|i| block_on(parser::Basic::new().parse(dir.join(format!("f{i}.feature")), parser::basic::Cli::default()).collect::<Vec<_>>())).collect(),
    };
    let mut herr = None;
    if items.len() != gens.len() {
        viol.push(v("file-count", format!("{} files written, parser returned {} items", gens.len(), items.len())));
    }
    let mut nontrivial = false;
    let mut summary = vec![];
    for (i, (g, item)) in gens.iter().zip(&items).enumerate() {
        let path = dir.join(format!("f{i}.feature"));
        let parsed = match gherkin::Feature::parse_path(&path, gherkin::GherkinEnv::default()) {
            Ok(p) => p,
            Err(e) => {
                // generator produced text gherkin rejects: not a case
                herr = Some(format!("generated file is not valid Gherkin: {e}\n{}", g.text));
                continue;
            }
        };
        // the parse really contains what was generated (no vacuous cases)
        let n_outlines = parsed.scenarios.iter().chain(parsed.rules.iter().flat_map(|r| r.scenarios.iter())).filter(|s| !s.examples.is_empty()).count();
        if n_outlines != g.outlines {
            herr = Some(format!("generator intended {} outlines, gherkin sees {n_outlines}\n{}", g.outlines, g.text));
            continue;
        }
        let exp = reference(&parsed);
        match (&exp, item) {
            (Ok(e), Ok(got)) => {
                // files come back in path order
                if got.path.as_deref().and_then(Path::file_name) != path.file_name() {
                    viol.push(v("file-order", format!("item #{i} is {:?}, expected {:?}", got.path, path)));
                }
                let names = |f: &gherkin::Feature| -> Vec<(String, Vec<String>, Vec<String>)> {
                    f.scenarios.iter().chain(f.rules.iter().flat_map(|r| r.scenarios.iter())).map(|s| (s.name.clone(), s.tags.clone(), s.steps.iter().map(|x| format!("{}|{:?}|{:?}", x.value, x.docstring, x.table.as_ref().map(|t| &t.rows))).collect())).collect()
                };
                // everything except positions must be equal; positions are compared for distinctness
                let strip = |f: &gherkin::Feature| {
                    let mut f = f.clone();
                    for s in f.scenarios.iter_mut().chain(f.rules.iter_mut().flat_map(|r| r.scenarios.iter_mut())) {
                        if !s.examples.is_empty() {
                            s.position = gherkin::LineCol::default();
                        }
                    }
                    f
                };
                if strip(got) != strip(e) {
                    let clause = if names(got).len() != names(e).len() {
                        "row-count"
                    } else if names(got).iter().map(|x| &x.1).ne(names(e).iter().map(|x| &x.1)) {
                        "tags"
                    } else if names(got) != names(e) {
                        "substitution"
                    } else {
                        "other-field"
                    };
                    viol.push(v(clause, format!("file {i}: expanded scenarios {:?}, reference {:?}\n--- file ---\n{}", names(got), names(e), g.text)));
                }
                let mut pos: Vec<(usize, usize)> = got.scenarios.iter().chain(got.rules.iter().flat_map(|r| r.scenarios.iter())).map(|s| (s.position.line, s.position.col)).collect();
                let n = pos.len();
                pos.sort_unstable();
                pos.dedup();
                if pos.len() != n {
                    viol.push(v("duplicate-positions", format!("file {i}: expanded scenarios share positions\n{}", g.text)));
                }
                if g.rows >= 2 && g.metachar_value {
                    nontrivial = true;
                }
                summary.push(json!({"file": i, "outlines": g.outlines, "rows": g.rows, "result": "expanded", "scenarios": names(got).len()}));
                labels.push("expanded");
            }
            (Err(unk), Err(parser::Error::ExampleExpansion(err))) => {
                if !unk.contains(&err.name) {
                    viol.push(v("error-names-wrong-placeholder", format!("file {i}: error names `{}`, unknown placeholders are {unk:?}\n{}", err.name, g.text)));
                }
                if err.path.as_deref().and_then(Path::file_name) != path.file_name() {
                    viol.push(v("error-path", format!("file {i}: error path {:?}", err.path)));
                }
                summary.push(json!({"file": i, "result": "error", "unknown": unk}));
                labels.push("expected_error");
            }
            (Ok(_), Err(e)) => viol.push(v("unexpected-error", format!("file {i}: every placeholder names a column, yet the parser returned {e}\n{}", g.text))),
            (Err(unk), Ok(_)) => viol.push(v("missing-error", format!("file {i}: placeholders {unk:?} name no column of a table with data rows, yet the feature was expanded\n{}", g.text))),
            (Err(_), Err(e)) => viol.push(v("wrong-error-kind", format!("file {i}: {e}"))),
        }
        if g.header_only {
            labels.push("header_only_table");
        }
    }
    labels.sort_unstable();
    labels.dedup();
    Out { violations: viol, nontrivial, labels, sample: json!({"files": gens.iter().map(|g| g.text.clone()).collect::<Vec<_>>(), "results": summary}), harness_error: herr }
}


/// C16 oracle over arbitrary text (raw-bytes fuzz target): if the `gherkin` crate parses it, the
/// crate's expansion must equal the reference expansion, or fail with an unknown placeholder.
pub fn check_text(text: &str) -> Vec<Violation> {
    use cucumber::feature::Ext as _;
    let Ok(parsed) = gherkin::Feature::parse(text, gherkin::GherkinEnv::default()) else { return vec![] };
    let exp = reference(&parsed);
    let got = std::panic::catch_unwind(std::panic::AssertUnwindSafe(|| parsed.clone().expand_examples()));
    let mut viol = vec![];
    let strip = |f: &gherkin::Feature| {
        let mut f = f.clone();
        for s in f.scenarios.iter_mut().chain(f.rules.iter_mut().flat_map(|r| r.scenarios.iter_mut())) {
            if !s.examples.is_empty() {
                s.position = gherkin::LineCol::default();
            }
        }
        f
    };
    match (exp, got) {
        (_, Err(_)) => viol.push(v("raw/panic", format!("expand_examples panicked on:\n{text}"))),
        (Ok(e), Ok(Ok(g))) => {
            if strip(&e) != strip(&g) {
                viol.push(v("raw/substitution", format!("expansion differs from the reference on:\n{text}")));
            }
        }
        (Err(unk), Ok(Err(err))) => {
            if !unk.contains(&err.name) {
                viol.push(v("raw/error-names-wrong-placeholder", format!("error names `{}`, unknown placeholders {unk:?} in:\n{text}", err.name)));
            }
        }
        (Ok(_), Ok(Err(err))) => viol.push(v("raw/unexpected-error", format!("unexpected error {err} on:\n{text}"))),
        (Err(unk), Ok(Ok(_))) => viol.push(v("raw/missing-error", format!("unknown placeholders {unk:?} but expansion succeeded on:\n{text}"))),
    }
    viol
}
