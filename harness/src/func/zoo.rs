//! C19: a zoo of `#[given]` / `#[when]` / `#[then]` annotated functions over one World, each paired
//! with a hand-written reference matcher and argument decoder.

#![allow(clippy::needless_pass_by_value, clippy::unused_async, clippy::unnecessary_wraps)]

use std::str::FromStr;

use cucumber::{Parameter, World, gherkin::Step, given, then, when};

#[derive(Debug, Default, World)]
pub struct ZW {
    pub log: Vec<String>,
}

fn rec(w: &mut ZW, s: String) {
    w.log.push(s);
}

// ---- literals
#[given("a literal step")]
fn lit_given(w: &mut ZW) {
    rec(w, "lit_given()".into());
}

#[when("a literal step")]
fn lit_when(w: &mut ZW) {
    rec(w, "lit_when()".into());
}

#[then("price is $5.00 (approx.) [x]*")]
fn lit_meta(w: &mut ZW) {
    rec(w, "lit_meta()".into());
}

// user-named capture groups delivered as a slice: one element per group, also when two named
// groups follow each other directly
#[when(regex = r"^(?P<name>\w+) is (?P<age>\d+) years old$")]
fn named_slice(w: &mut ZW, v: &[String]) {
    rec(w, format!("named_slice({v:?})"));
}

#[then(regex = r"^offset (?P<sign>-?)(?P<num>\d+)$")]
async fn named_adjacent(w: &mut ZW, v: &[String]) {
    rec(w, format!("named_adjacent({v:?})"));
}

// the same attribute on two functions (copy-paste): both are registered, the step is ambiguous
#[given("twice defined")]
fn twice_a(w: &mut ZW) {
    rec(w, "twice_a()".into());
}

#[given("twice defined")]
async fn twice_b(w: &mut ZW) {
    rec(w, "twice_b()".into());
}

// the regex metacharacters `lit_meta` does not have
#[when("yes|no + maybe? {d} ^e\\f # & g-h ~ ok")]
fn lit_meta2(w: &mut ZW) {
    rec(w, "lit_meta2()".into());
}

#[then("naïve café ☕")]
async fn lit_unicode(w: &mut ZW) {
    rec(w, "lit_unicode()".into());
}

// ---- regex
#[given(regex = r"^(\d+) apples$")]
fn apples(w: &mut ZW, n: u32) {
    rec(w, format!("apples({n})"));
}

#[when(regex = r"eat (\d+)")]
fn eat(w: &mut ZW, n: u8) {
    rec(w, format!("eat({n})"));
}

#[then(regex = r"^(\w+) has (-?\d+) points$")]
fn points(w: &mut ZW, name: String, pts: i64) {
    rec(w, format!("points({name:?},{pts})"));
}

#[given(regex = r"^numbers (\d+) (\d+) (\d+)$")]
fn nums(w: &mut ZW, v: &[u32]) {
    rec(w, format!("nums({v:?})"));
}

#[when(regex = r"^with step (\w+)$")]
fn with_step(w: &mut ZW, #[step] s: &Step, word: String) {
    rec(w, format!("with_step({:?},{word:?})", s.value));
}

#[then(regex = r"^named step arg$")]
fn named_step(w: &mut ZW, step: &Step) {
    rec(w, format!("named_step({:?})", step.value));
}

#[given(regex = r"^async (\d+)$")]
async fn asy(w: &mut ZW, n: u32) {
    rec(w, format!("asy({n})"));
}

#[then(regex = r"^result (ok|err)$")]
fn res(w: &mut ZW, which: String) -> Result<(), String> {
    rec(w, format!("res({which:?})"));
    if which == "ok" { Ok(()) } else { Err("zoo-err".into()) }
}

#[when(regex = r"^async result (ok|err)$")]
async fn ares(w: &mut ZW, which: String) -> Result<(), String> {
    rec(w, format!("ares({which:?})"));
    if which == "ok" { Ok(()) } else { Err("zoo-async-err".into()) }
}

pub type StepResult = Result<(), String>;

#[then(regex = r"^alias result (ok|err)$")]
fn alias_res(w: &mut ZW, which: String) -> StepResult {
    rec(w, format!("alias_res({which:?})"));
    if which == "ok" { Ok(()) } else { Err("zoo-alias-err".into()) }
}

#[given(regex = r"^io result (ok|err)$")]
async fn io_res(w: &mut ZW, which: String) -> std::io::Result<()> {
    rec(w, format!("io_res({which:?})"));
    if which == "ok" { Ok(()) } else { Err(std::io::Error::other("zoo-io-err")) }
}

#[when(regex = r"^boxed result (ok|err)$")]
fn boxed_res(w: &mut ZW, which: String) -> Result<(), Box<dyn std::error::Error>> {
    rec(w, format!("boxed_res({which:?})"));
    if which == "ok" { Ok(()) } else { Err("zoo-boxed-err".into()) }
}

#[given(regex = r"^optional(?: (\w+))? end$")]
fn optional(w: &mut ZW, word: String) {
    rec(w, format!("optional({word:?})"));
}

#[when(regex = r"^small (\S+)$")]
fn small(w: &mut ZW, n: u8) {
    rec(w, format!("small({n})"));
}

#[then(regex = r"^two (\d+) then (\w+) last$")]
fn two(w: &mut ZW, a: u16, b: String) {
    rec(w, format!("two({a},{b:?})"));
}

// ---- expressions
#[given(expr = "I have {int} cucumber(s)")]
fn have(w: &mut ZW, n: i32) {
    rec(w, format!("have({n})"));
}

#[when(expr = "{word} says {string}")]
fn says(w: &mut ZW, who: String, what: String) {
    rec(w, format!("says({who:?},{what:?})"));
}

#[then(expr = "I am happy/sad")]
fn mood(w: &mut ZW) {
    rec(w, "mood()".into());
}

#[given(expr = "temperature is {float}")]
fn temp(w: &mut ZW, f: f64) {
    rec(w, format!("temp({f})"));
}

#[when(expr = "anything {} goes")]
fn any(w: &mut ZW, s: String) {
    rec(w, format!("any({s:?})"));
}

#[derive(Debug)]
pub struct CustomU64(pub u64);

impl FromStr for CustomU64 {
    type Err = std::num::ParseIntError;
    fn from_str(s: &str) -> Result<Self, Self::Err> {
        s.parse().map(Self)
    }
}

impl Parameter for CustomU64 {
    const REGEX: &'static str = r"\d+";
    const NAME: &'static str = "u64";
}

#[then(expr = "custom {u64}")]
fn custom(w: &mut ZW, n: CustomU64) {
    rec(w, format!("custom({})", n.0));
}

#[derive(Debug, Parameter)]
#[param(regex = "(red)|(green)|(blue)", name = "color")]
pub enum Color {
    Red,
    Green,
    Blue,
}

impl FromStr for Color {
    type Err = String;
    fn from_str(s: &str) -> Result<Self, String> {
        match s {
            "red" => Ok(Self::Red),
            "green" => Ok(Self::Green),
            "blue" => Ok(Self::Blue),
            o => Err(format!("unknown color {o}")),
        }
    }
}

#[given(expr = "{word} has {color} eyes and {int} toe(s)")]
fn eyes(w: &mut ZW, who: String, c: Color, toes: i32) {
    rec(w, format!("eyes({who:?},{c:?},{toes})"));
}

#[derive(Debug, Parameter)]
#[param(regex = "cat|dog", name = "animal")]
pub enum Animal {
    Cat,
    Dog,
}

impl FromStr for Animal {
    type Err = String;
    fn from_str(s: &str) -> Result<Self, String> {
        match s {
            "cat" => Ok(Self::Cat),
            "dog" => Ok(Self::Dog),
            o => Err(format!("unknown animal {o}")),
        }
    }
}

// several *different* custom parameters in one expression, mentioned in non-alphabetical and in
// alphabetical order of their names
#[when(expr = "paint {u64} in {color}")]
fn paint_a(w: &mut ZW, n: CustomU64, c: Color) {
    rec(w, format!("paint_a({},{c:?})", n.0));
}

#[then(expr = "paint {color} with {u64} coat(s)")]
fn paint_b(w: &mut ZW, c: Color, n: CustomU64) {
    rec(w, format!("paint_b({c:?},{})", n.0));
}

#[given(expr = "a {color} {animal} and {u64} more")]
fn three_custom(w: &mut ZW, c: Color, a: Animal, n: CustomU64) {
    rec(w, format!("three_custom({c:?},{a:?},{})", n.0));
}

// an expression that is text only, with escaped reserved characters (they stand for themselves)
#[given(expr = "the ratio is 5 \\/ 10 \\(approx\\)")]
fn expr_escapes(w: &mut ZW) {
    rec(w, "expr_escapes()".into());
}

// regexes whose leading literal run ends in a quantified character
#[given(regex = r"^colou?r is (\w+)$")]
fn opt_char(w: &mut ZW, c: String) {
    rec(w, format!("opt_char({c:?})"));
}

#[when(regex = r"^an? (\w+) is eaten$")]
fn opt_char2(w: &mut ZW, c: String) {
    rec(w, format!("opt_char2({c:?})"));
}

#[then(regex = r"^ab*c is spel{1,2}ed$")]
fn star_char(w: &mut ZW) {
    rec(w, "star_char()".into());
}

#[when(regex = r"^colors (red|green|blue) (red|green|blue)$")]
fn colors(w: &mut ZW, v: &[Color]) {
    rec(w, format!("colors({v:?})"));
}

// ---- several attributes on one function
#[given(regex = r"^multi (\d+)$")]
#[when(expr = "multi {int}")]
#[then(regex = r"^(\d+) multi$")]
fn multi(w: &mut ZW, n: i32) {
    rec(w, format!("multi({n})"));
}

#[given("shared literal")]
#[when("shared literal")]
#[then("shared literal")]
fn shared(w: &mut ZW) {
    rec(w, "shared()".into());
}

// ------------------------------------------------------------------------------------------
// reference table

#[derive(Clone, Copy, Debug, PartialEq, Eq)]
pub enum Kw {
    Given,
    When,
    Then,
}

pub struct Entry {
    pub func: &'static str,
    pub kw: Kw,
    /// reference matcher: a regex written by hand from the attribute as documented (literal: anchored
    /// escaped text; regex: as written; expr: derived from the Cucumber Expressions spec)
    pub re: &'static str,
    /// renders the expected log line from the capture groups of `re` (None = must panic)
    pub expect: fn(&regex::Captures<'_>, &str) -> Option<String>,
    /// templates for positive inputs: `{n}` int, `{w}` word, `{f}` float, `{q}` quoted string, `{c}` color, `{x}` anything
    pub templates: &'static [&'static str],
}

fn unq(s: &str) -> String {
    s[1..s.len() - 1].to_string()
}

pub fn entries() -> Vec<Entry> {
    use Kw::{Given, Then, When};
    fn g<'a>(c: &'a regex::Captures<'_>, i: usize) -> &'a str {
        c.get(i).map_or("", |m| m.as_str())
    }
    vec![
        Entry { func: "lit_given", kw: Given, re: r"^a literal step$", expect: |_, _| Some("lit_given()".into()), templates: &["a literal step"] },
        Entry { func: "lit_when", kw: When, re: r"^a literal step$", expect: |_, _| Some("lit_when()".into()), templates: &["a literal step"] },
        Entry { func: "lit_meta", kw: Then, re: r"^price is \$5\.00 \(approx\.\) \[x\]\*$", expect: |_, _| Some("lit_meta()".into()), templates: &["price is $5.00 (approx.) [x]*"] },
        Entry { func: "named_slice", kw: When, re: r"^(?P<name>\w+) is (?P<age>\d+) years old$", expect: |c, _| Some(format!("named_slice({:?})", vec![g(c, 1).to_string(), g(c, 2).to_string()])), templates: &["{w} is {n} years old"] },
        Entry { func: "named_adjacent", kw: Then, re: r"^offset (?P<sign>-?)(?P<num>\d+)$", expect: |c, _| Some(format!("named_adjacent({:?})", vec![g(c, 1).to_string(), g(c, 2).to_string()])), templates: &["offset {n}", "offset -{n}"] },
        Entry { func: "twice_a", kw: Given, re: r"^twice defined$", expect: |_, _| Some("twice_a()".into()), templates: &["twice defined"] },
        Entry { func: "twice_b", kw: Given, re: r"^twice defined$", expect: |_, _| Some("twice_b()".into()), templates: &["twice defined"] },
        Entry { func: "lit_meta2", kw: When, re: r"^yes\|no \+ maybe\? \{d\} \^e\\f # & g-h ~ ok$", expect: |_, _| Some("lit_meta2()".into()), templates: &["yes|no + maybe? {d} ^e\\f # & g-h ~ ok"] },
        Entry { func: "lit_unicode", kw: Then, re: r"^naïve café ☕$", expect: |_, _| Some("lit_unicode()".into()), templates: &["naïve café ☕"] },
        Entry { func: "apples", kw: Given, re: r"^(\d+) apples$", expect: |c, _| g(c, 1).parse::<u32>().ok().map(|n| format!("apples({n})")), templates: &["{n} apples"] },
        Entry { func: "eat", kw: When, re: r"eat (\d+)", expect: |c, _| g(c, 1).parse::<u8>().ok().map(|n| format!("eat({n})")), templates: &["eat {n}", "please eat {n} now"] },
        Entry { func: "points", kw: Then, re: r"^(\w+) has (-?\d+) points$", expect: |c, _| g(c, 2).parse::<i64>().ok().map(|p| format!("points({:?},{p})", g(c, 1))), templates: &["{w} has {n} points", "{w} has -{n} points"] },
        Entry { func: "nums", kw: Given, re: r"^numbers (\d+) (\d+) (\d+)$", expect: |c, _| {
            let v: Option<Vec<u32>> = (1..=3).map(|i| g(c, i).parse().ok()).collect();
            v.map(|v| format!("nums({v:?})"))
        }, templates: &["numbers {n} {n} {n}"] },
        Entry { func: "with_step", kw: When, re: r"^with step (\w+)$", expect: |c, text| Some(format!("with_step({text:?},{:?})", g(c, 1))), templates: &["with step {w}"] },
        Entry { func: "named_step", kw: Then, re: r"^named step arg$", expect: |_, text| Some(format!("named_step({text:?})")), templates: &["named step arg"] },
        Entry { func: "asy", kw: Given, re: r"^async (\d+)$", expect: |c, _| g(c, 1).parse::<u32>().ok().map(|n| format!("asy({n})")), templates: &["async {n}"] },
        // a returned Err must make the step fail: the function runs (log line) and then the step panics
        Entry { func: "res", kw: Then, re: r"^result (ok|err)$", expect: |c, _| (g(c, 1) == "ok").then(|| "res(\"ok\")".into()), templates: &["result ok", "result err"] },
        Entry { func: "ares", kw: When, re: r"^async result (ok|err)$", expect: |c, _| (g(c, 1) == "ok").then(|| "ares(\"ok\")".into()), templates: &["async result ok", "async result err"] },
        Entry { func: "alias_res", kw: Then, re: r"^alias result (ok|err)$", expect: |c, _| (g(c, 1) == "ok").then(|| "alias_res(\"ok\")".into()), templates: &["alias result ok", "alias result err"] },
        Entry { func: "io_res", kw: Given, re: r"^io result (ok|err)$", expect: |c, _| (g(c, 1) == "ok").then(|| "io_res(\"ok\")".into()), templates: &["io result ok", "io result err"] },
        Entry { func: "boxed_res", kw: When, re: r"^boxed result (ok|err)$", expect: |c, _| (g(c, 1) == "ok").then(|| "boxed_res(\"ok\")".into()), templates: &["boxed result ok", "boxed result err"] },
        Entry { func: "optional", kw: Given, re: r"^optional(?: (\w+))? end$", expect: |c, _| Some(format!("optional({:?})", g(c, 1))), templates: &["optional end", "optional {w} end"] },
        Entry { func: "small", kw: When, re: r"^small (\S+)$", expect: |c, _| g(c, 1).parse::<u8>().ok().map(|n| format!("small({n})")), templates: &["small {n}", "small {w}", "small 300"] },
        Entry { func: "two", kw: Then, re: r"^two (\d+) then (\w+) last$", expect: |c, _| g(c, 1).parse::<u16>().ok().map(|a| format!("two({a},{:?})", g(c, 2))), templates: &["two {n} then {w} last"] },
        Entry { func: "have", kw: Given, re: r"^I have (-?\d+) cucumber(?:s)?$", expect: |c, _| g(c, 1).parse::<i32>().ok().map(|n| format!("have({n})")), templates: &["I have {n} cucumbers", "I have {n} cucumber", "I have -{n} cucumbers"] },
        Entry { func: "says", kw: When, re: r#"^([^\s]+) says ("(?:[^"\\]*(?:\\.[^"\\]*)*)"|'(?:[^'\\]*(?:\\.[^'\\]*)*)')$"#, expect: |c, _| Some(format!("says({:?},{:?})", g(c, 1), unq(g(c, 2)))), templates: &["{w} says {q}"] },
        Entry { func: "mood", kw: Then, re: r"^I am (?:happy|sad)$", expect: |_, _| Some("mood()".into()), templates: &["I am happy", "I am sad"] },
        Entry { func: "temp", kw: Given, re: r"^temperature is ([+-]?(?:inf|NaN|(?:\d+|\d+\.\d*|\d*\.\d+)(?:[eE][+-]?\d+)?))$", expect: |c, _| g(c, 1).parse::<f64>().ok().map(|f| format!("temp({f})")), templates: &["temperature is {f}", "temperature is {n}"] },
        Entry { func: "any", kw: When, re: r"^anything (.*) goes$", expect: |c, _| Some(format!("any({:?})", g(c, 1))), templates: &["anything {x} goes", "anything  goes"] },
        Entry { func: "custom", kw: Then, re: r"^custom (\d+)$", expect: |c, _| g(c, 1).parse::<u64>().ok().map(|n| format!("custom({n})")), templates: &["custom {n}", "custom 99999999999999999999999"] },
        Entry { func: "eyes", kw: Given, re: r"^([^\s]+) has (red|green|blue) eyes and (-?\d+) toe(?:s)?$", expect: |c, _| {
            let col = match g(c, 2) { "red" => "Red", "green" => "Green", _ => "Blue" };
            g(c, 3).parse::<i32>().ok().map(|t| format!("eyes({:?},{col},{t})", g(c, 1)))
        }, templates: &["{w} has {c} eyes and {n} toes", "{w} has {c} eyes and 1 toe"] },
        Entry { func: "paint_a", kw: When, re: r"^paint (\d+) in (red|green|blue)$", expect: |c, _| {
            let col = match g(c, 2) { "red" => "Red", "green" => "Green", _ => "Blue" };
            g(c, 1).parse::<u64>().ok().map(|n| format!("paint_a({n},{col})"))
        }, templates: &["paint {n} in {c}", "paint {n} in cat"] },
        Entry { func: "paint_b", kw: Then, re: r"^paint (red|green|blue) with (\d+) coat(?:s)?$", expect: |c, _| {
            let col = match g(c, 1) { "red" => "Red", "green" => "Green", _ => "Blue" };
            g(c, 2).parse::<u64>().ok().map(|n| format!("paint_b({col},{n})"))
        }, templates: &["paint {c} with {n} coats", "paint {c} with 1 coat"] },
        Entry { func: "three_custom", kw: Given, re: r"^a (red|green|blue) (cat|dog) and (\d+) more$", expect: |c, _| {
            let col = match g(c, 1) { "red" => "Red", "green" => "Green", _ => "Blue" };
            let an = if g(c, 2) == "cat" { "Cat" } else { "Dog" };
            g(c, 3).parse::<u64>().ok().map(|n| format!("three_custom({col},{an},{n})"))
        }, templates: &["a {c} cat and {n} more", "a {c} dog and {n} more", "a cat {c} and {n} more"] },
        Entry { func: "expr_escapes", kw: Given, re: r"^the ratio is 5 / 10 \(approx\)$", expect: |_, _| Some("expr_escapes()".into()), templates: &["the ratio is 5 / 10 (approx)", "the ratio is 5 \\/ 10 \\(approx\\)", "the ratio is 5 / 10 approx"] },
        Entry { func: "opt_char", kw: Given, re: r"^colou?r is (\w+)$", expect: |c, _| Some(format!("opt_char({:?})", g(c, 1))), templates: &["color is {w}", "colour is {w}", "colo is {w}"] },
        Entry { func: "opt_char2", kw: When, re: r"^an? (\w+) is eaten$", expect: |c, _| Some(format!("opt_char2({:?})", g(c, 1))), templates: &["a {w} is eaten", "an {w} is eaten", "ann {w} is eaten"] },
        Entry { func: "star_char", kw: Then, re: r"^ab*c is spel{1,2}ed$", expect: |_, _| Some("star_char()".into()), templates: &["ac is speled", "abc is spelled", "abbbc is spelled", "abc is spellled"] },
        Entry { func: "colors", kw: When, re: r"^colors (red|green|blue) (red|green|blue)$", expect: |c, _| {
            let m = |s: &str| match s { "red" => "Red", "green" => "Green", _ => "Blue" };
            Some(format!("colors([{}, {}])", m(g(c, 1)), m(g(c, 2))))
        }, templates: &["colors {c} {c}"] },
        Entry { func: "multi", kw: Given, re: r"^multi (\d+)$", expect: |c, _| g(c, 1).parse::<i32>().ok().map(|n| format!("multi({n})")), templates: &["multi {n}"] },
        Entry { func: "multi", kw: When, re: r"^multi (-?\d+)$", expect: |c, _| g(c, 1).parse::<i32>().ok().map(|n| format!("multi({n})")), templates: &["multi {n}", "multi -{n}"] },
        Entry { func: "multi", kw: Then, re: r"^(\d+) multi$", expect: |c, _| g(c, 1).parse::<i32>().ok().map(|n| format!("multi({n})")), templates: &["{n} multi"] },
        Entry { func: "shared", kw: Given, re: r"^shared literal$", expect: |_, _| Some("shared()".into()), templates: &["shared literal"] },
        Entry { func: "shared", kw: When, re: r"^shared literal$", expect: |_, _| Some("shared()".into()), templates: &["shared literal"] },
        Entry { func: "shared", kw: Then, re: r"^shared literal$", expect: |_, _| Some("shared()".into()), templates: &["shared literal"] },
    ]
}
