//! C17: `step::Collection::find` vs the `regex` crate's own API (differential).

use std::cell::RefCell;

use cucumber::{
    gherkin::{self, StepType},
    step::{self, Collection, Context as StepCtx, Location},
};
use futures::{FutureExt as _, executor::block_on, future::LocalBoxFuture};
use regex::Regex;
use serde_json::{Value, json};

use crate::{engine::Violation, lab::W, tape::Tape};

fn v(sig: &str, msg: String) -> Violation {
    Violation::new(format!("C17/{sig}"), msg)
}

thread_local! {
    static CALLS: RefCell<Vec<(usize, Vec<(Option<String>, String)>)>> = const { RefCell::new(Vec::new()) };
}

macro_rules! step_fns {
    ($($name:ident = $i:expr),*) => {
        $(fn $name(_: &mut W, ctx: StepCtx) -> LocalBoxFuture<'_, ()> {
            async move { CALLS.with(|c| c.borrow_mut().push(($i, ctx.matches.clone()))); }.boxed_local()
        })*
        const FNS: &[step::Step<W>] = &[$($name),*];
    };
}
step_fns!(f0 = 0, f1 = 1, f2 = 2, f3 = 3, f4 = 4, f5 = 5, f6 = 6, f7 = 7);

#[derive(Clone, Debug)]
pub struct Def {
    pub ty: usize, // 0 given, 1 when, 2 then
    pub re: String,
    pub loc: Option<Location>,
    /// a text that matches `re`
    pub instance: String,
    /// compiled with `RegexBuilder::case_insensitive(true)` (a flag the pattern text does not show)
    pub ci: bool,
}

impl Def {
    pub fn compile(&self) -> Result<Regex, regex::Error> {
        regex::RegexBuilder::new(&self.re).case_insensitive(self.ci).build()
    }
}

const KW: [&str; 3] = ["Given", "When", "Then"];
const PATHS: &[&str] = &["a.rs", "b.rs", "steps/mod.rs"];

/// Regex grammar: sequence of atoms; returns (regex source, matching instance).
fn gen_atom(t: &mut Tape, depth: usize) -> (String, String) {
    let words = ["foo", "bar", "x", "cucumber", "é", "日本", "a b"];
    match t.pick(if depth > 1 { 7 } else { 11 }) {
        0 => {
            let w = words[t.pick(words.len())];
            (regex::escape(w), w.to_string())
        }
        1 => (r"(\d+)".into(), format!("{}", t.pick(1000))),
        2 => (r"(\w+)".into(), ["alpha", "b2", "ñu", "_"][t.pick(4)].to_string()),
        3 => (r"(?P<name>[a-z]+)".into(), ["abc", "z"][t.pick(2)].to_string()),
        4 => {
            // optional group that may not participate
            let take = t.chance(1, 2);
            (r"(opt)?".into(), if take { "opt".into() } else { String::new() })
        }
        5 => {
            let alts = ["cat", "dog", "猫"];
            (format!("({})", alts.join("|")), alts[t.pick(3)].to_string())
        }
        6 => (r"(?:non|capturing)".into(), ["non", "capturing"][t.pick(2)].to_string()),
        7 => {
            // nested groups
            let (a, ia) = gen_atom(t, depth + 1);
            let (b, ib) = gen_atom(t, depth + 1);
            (format!("({a}-{b})"), format!("{ia}-{ib}"))
        }
        8 => {
            // optional nested with named inner group
            let take = t.chance(1, 2);
            (r"(?:with (?P<inner>\d+))?".into(), if take { format!("with {}", t.pick(50)) } else { String::new() })
        }
        9 => (r".*".into(), ["", "anything at all", "ß"][t.pick(3)].to_string()),
        _ => {
            let (a, ia) = gen_atom(t, depth + 1);
            let (b, ib) = gen_atom(t, depth + 1);
            // alternation of two atoms, each its own group: only one participates
            if t.chance(1, 2) { (format!("(?:({a})|({b}))"), ia) } else { (format!("(?:({a})|({b}))"), ib) }
        }
    }
}

pub fn gen_def(t: &mut Tape) -> Def {
    let n = t.range(1, 4);
    let mut re = String::new();
    let mut inst = String::new();
    let anchored = t.chance(2, 3);
    for i in 0..n {
        let (a, ia) = gen_atom(t, 0);
        if i > 0 {
            re.push(' ');
            inst.push(' ');
        }
        re.push_str(&a);
        inst.push_str(&ia);
    }
    if anchored {
        re = format!("^{re}$");
        // top-level alternation of two anchored branches: the text may match through either
        if t.chance(1, 6) {
            let (b, ib) = gen_atom(t, 0);
            re = format!("{re}|^alt {b}$");
            if t.chance(1, 2) {
                inst = format!("alt {ib}");
            }
        }
    }
    let ci = t.chance(1, 8);
    if ci && t.chance(1, 2) {
        inst = inst.to_uppercase();
    }
    let loc = t.chance(1, 2).then(|| Location { path: PATHS[t.pick(PATHS.len())], line: t.range(1, 5) as u32, column: t.range(1, 3) as u32 });
    Def { ty: t.pick(3), re, loc, instance: inst, ci }
}

pub struct C17Case {
    pub defs: Vec<Def>,
    pub texts: Vec<(usize, String)>,
    pub order1: Vec<usize>,
    pub order2: Vec<usize>,
}

pub fn gen_case(t: &mut Tape) -> C17Case {
    let n = t.pick(FNS.len() + 1);
    let mut defs: Vec<Def> = vec![];
    while defs.len() < n {
        let mut d = gen_def(t);
        // sometimes reuse an earlier regex under another keyword / location (ambiguity within a keyword
        // comes from different regexes matching the same text, or the same regex at another location)
        if !defs.is_empty() && t.chance(1, 4) {
            let src = &defs[t.pick(defs.len())];
            d.re = src.re.clone();
            d.ci = src.ci;
            d.instance = src.instance.clone();
            if t.chance(1, 2) {
                d.ty = src.ty;
            }
        }
        if d.compile().is_err() {
            continue;
        }
        // R9: pairwise distinct (keyword, regex, location)
        if defs.iter().any(|x| x.ty == d.ty && x.re == d.re && x.loc == d.loc) {
            d.loc = Some(Location { path: "dup.rs", line: 100 + defs.len() as u32, column: 1 });
        }
        defs.push(d);
    }
    let perm = |t: &mut Tape, n: usize| {
        let mut v: Vec<usize> = (0..n).collect();
        for i in (1..n).rev() {
            let j = t.pick(i + 1);
            v.swap(i, j);
        }
        v
    };
    let order1 = perm(t, n);
    let order2 = perm(t, n);
    let mut texts = vec![];
    let nt = t.range(1, 6);
    for _ in 0..nt {
        let ty = t.pick(3);
        let base = if defs.is_empty() || t.chance(1, 6) { ["nothing matches this", "", "foo"][t.pick(3)].to_string() } else { defs[t.pick(defs.len())].instance.clone() };
        let text = match t.pick(6) {
            0 => format!("{base} trailing"),
            1 => format!("pre {base}"),
            2 => base.to_uppercase(),
            3 => base.replace(' ', "  "),
            _ => base,
        };
        let ty = if !defs.is_empty() && t.chance(2, 3) { defs[t.pick(defs.len())].ty } else { ty };
        texts.push((ty, text));
    }
    C17Case { defs, texts, order1, order2 }
}

fn build(defs: &[Def], order: &[usize]) -> Collection<W> {
    let mut c = Collection::<W>::new();
    for i in order {
        let d = &defs[*i];
        let re = d.compile().unwrap();
        c = match d.ty {
            0 => c.given(d.loc, re, FNS[*i]),
            1 => c.when(d.loc, re, FNS[*i]),
            _ => c.then(d.loc, re, FNS[*i]),
        };
    }
    c
}

fn mkstep(ty: usize, text: &str) -> gherkin::Step {
    let (k, t) = [("Given ", StepType::Given), ("When ", StepType::When), ("Then ", StepType::Then)][ty];
    gherkin::Step { keyword: k.into(), ty: t, value: text.into(), docstring: None, table: None, span: gherkin::Span::default(), position: gherkin::LineCol { line: 3, col: 5 } }
}

#[derive(Debug, PartialEq)]
enum Outcome {
    NotFound,
    Found { def: usize, loc: Option<Location>, matches: Vec<(Option<String>, String)> },
    Ambiguous(Vec<(String, Option<Location>)>),
}

fn observe(c: &Collection<W>, step: &gherkin::Step) -> Outcome {
    match c.find(step) {
        Ok(None) => Outcome::NotFound,
        Err(e) => Outcome::Ambiguous(e.possible_matches.iter().map(|(re, l)| (re.as_str().to_string(), *l)).collect()),
        Ok(Some((f, _caps, loc, ctx))) => {
            CALLS.with(|c| c.borrow_mut().clear());
            let mut w = W { id: 0, counter: 0 };
            let passed_matches = ctx.matches.clone();
            block_on(f(&mut w, ctx));
            let (def, seen) = CALLS.with(|c| c.borrow().first().cloned()).unwrap_or((usize::MAX, vec![]));
            debug_assert_eq!(seen, passed_matches);
            Outcome::Found { def, loc, matches: seen }
        }
    }
}

/// The reference: the `regex` crate's `is_match` / `captures` / `capture_names`.
fn reference(defs: &[Def], res: &[Regex], ty: usize, text: &str) -> Outcome {
    let cands: Vec<usize> = (0..defs.len()).filter(|i| defs[*i].ty == ty && res[*i].is_match(text)).collect();
    match cands.len() {
        0 => Outcome::NotFound,
        1 => {
            let d = &defs[cands[0]];
            let re = &res[cands[0]];
            let caps = re.captures(text).unwrap();
            let matches = re.capture_names().enumerate().map(|(i, n)| (n.map(str::to_string), caps.get(i).map_or(String::new(), |m| m.as_str().to_string()))).collect();
            Outcome::Found { def: cands[0], loc: d.loc, matches }
        }
        _ => {
            let mut v: Vec<(String, Option<Location>)> = cands.iter().map(|i| (defs[*i].re.clone(), defs[*i].loc)).collect();
            v.sort();
            Outcome::Ambiguous(v)
        }
    }
}

pub struct C17Out {
    pub violations: Vec<Violation>,
    pub nontrivial: bool,
    pub labels: Vec<&'static str>,
    pub sample: Value,
}

pub fn check(case: &C17Case) -> C17Out {
    let c1 = build(&case.defs, &case.order1);
    let c2 = build(&case.defs, &case.order2);
    // a runner (and `Cucumber`) can be cloned: the copy must match exactly like the original
    let c3 = c1.clone();
    let res: Vec<Regex> = case.defs.iter().map(|d| d.compile().unwrap()).collect();
    let mut viol = vec![];
    let mut nontrivial = false;
    let mut labels = vec![];
    let mut rows = vec![];
    for (ty, text) in &case.texts {
        let step = mkstep(*ty, text);
        let exp = reference(&case.defs, &res, *ty, text);
        let got1 = observe(&c1, &step);
        let got2 = observe(&c2, &step);
        let got3 = observe(&c3, &step);
        rows.push(json!({"keyword": KW[*ty], "text": text, "expected": format!("{exp:?}")}));
        match &exp {
            Outcome::Ambiguous(_) => {
                nontrivial = true;
                labels.push("ambiguous");
            }
            Outcome::Found { matches, .. } => {
                labels.push("found");
                if matches.iter().skip(1).any(|m| m.1.is_empty()) {
                    nontrivial = true;
                    labels.push("non_participating_group");
                }
            }
            Outcome::NotFound => labels.push("not_found"),
        }
        if got1 != exp {
            let clause = match (&exp, &got1) {
                (Outcome::Ambiguous(_), Outcome::Ambiguous(_)) => "ambiguity-candidates",
                (Outcome::Found { def: a, .. }, Outcome::Found { def: b, .. }) if a != b => "wrong-definition",
                (Outcome::Found { .. }, Outcome::Found { .. }) => "captures",
                (Outcome::NotFound, _) => "match-outside-keyword-or-regex",
                (_, Outcome::NotFound) => "missed-match",
                _ => "verdict",
            };
            viol.push(v(clause, format!("step {:?} `{text}` over definitions {:?}: find() gave {got1:?}, regex API says {exp:?}", ["Given", "When", "Then"][*ty], case.defs.iter().map(|d| (d.ty, &d.re, d.loc)).collect::<Vec<_>>())));
        } else if got3 != got1 {
            viol.push(v("cloned-collection-differs", format!("step {:?} `{text}`: the collection gives {got1:?}, its clone gives {got3:?}", ["Given", "When", "Then"][*ty])));
        } else if got2 != got1 {
            viol.push(v("registration-order-dependent", format!("step `{text}`: registration order {:?} gives {got1:?}, order {:?} gives {got2:?}", case.order1, case.order2)));
        }
    }
    labels.sort_unstable();
    labels.dedup();
    C17Out {
        violations: viol,
        nontrivial,
        labels,
        sample: json!({"definitions": case.defs.iter().map(|d| json!({"keyword": KW[d.ty], "regex": d.re, "location": d.loc.map(|l| l.to_string())})).collect::<Vec<_>>(), "registration_orders": [case.order1, case.order2], "steps": rows}),
    }
}
