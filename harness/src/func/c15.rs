//! C15: filtering by name, tags or closure hands exactly the matching scenarios to the runner.

use std::{cell::RefCell, rc::Rc, str::FromStr as _};

use cucumber::{
    Cucumber, Parser, Runner, cli,
    gherkin::{self, tagexpr::TagOperation},
    parser,
    tag::Ext as _,
};
use futures::{StreamExt as _, executor::block_on, stream};
use serde_json::{Value, json};

use crate::{
    engine::Violation,
    lab::{
        W,
        case::{mkbackground, mkscenario, mkstep},
    },
    refmodel::{eval_tagexpr, render_tagexpr},
    stream::{Ev, Rec},
    tape::Tape,
};

fn v(sig: &str, msg: String) -> Violation {
    Violation::new(format!("C15/{sig}"), msg)
}

#[derive(Clone)]
pub struct VecParser(pub Vec<parser::Result<gherkin::Feature>>);

impl Parser<()> for VecParser {
    type Cli = cli::Empty;
    type Output = stream::Iter<std::vec::IntoIter<parser::Result<gherkin::Feature>>>;

    fn parse(self, (): (), _: cli::Empty) -> Self::Output {
        stream::iter(self.0)
    }
}

/// A runner that only records the features it is handed.
#[derive(Clone)]
pub struct RecordingRunner(pub Rc<RefCell<Vec<parser::Result<gherkin::Feature>>>>);

impl Runner<W> for RecordingRunner {
    type Cli = cli::Empty;
    type EventStream = stream::LocalBoxStream<'static, Ev>;

    fn run<S>(self, features: S, _: cli::Empty) -> Self::EventStream
    where
        S: futures::Stream<Item = parser::Result<gherkin::Feature>> + 'static,
    {
        let store = self.0;
        features
            .filter_map(move |f| {
                store.borrow_mut().push(f);
                async { None }
            })
            .boxed_local()
    }
}

const TAGS: &[&str] = &["a", "b", "c", "wip", "slow", "Smoke", "WIP"];

fn gen_tags(t: &mut Tape, p: u32) -> Vec<String> {
    TAGS.iter().filter(|_| t.rare(p, 100)).map(|s| (*s).to_string()).collect()
}

pub fn gen_expr(t: &mut Tape, depth: usize) -> TagOperation {
    if depth >= 4 || t.chance(1, 3) {
        return TagOperation::Tag(TAGS[t.pick(TAGS.len())].into());
    }
    match t.pick(3) {
        0 => TagOperation::And(Box::new(gen_expr(t, depth + 1)), Box::new(gen_expr(t, depth + 1))),
        1 => TagOperation::Or(Box::new(gen_expr(t, depth + 1)), Box::new(gen_expr(t, depth + 1))),
        _ => TagOperation::Not(Box::new(gen_expr(t, depth + 1))),
    }
}

const NAME_RES: &[&str] = &["S0", "^F0", "R1", r"S\d$", "F1.*S1", "nomatch", ".*", r"^F\d\.S[01]$", "(?i)f0"];

pub struct Case {
    pub features: Vec<gherkin::Feature>,
    pub name_re: Option<String>,
    pub tags: Option<TagOperation>,
    /// closure: accepts scenarios whose line is in this residue class
    pub closure_mod: Option<(usize, usize)>,
}

pub fn gen_case(t: &mut Tape) -> Case {
    let nf = t.range(1, 3);
    let mut features = vec![];
    for fi in 0..nf {
        let mut line = 2usize;
        let bg = t.chance(1, 3).then(|| mkbackground(vec![mkstep(format!("bg {fi}"), 3, 0)], 2));
        if bg.is_some() {
            line += 2;
        }
        let mut mk = |t: &mut Tape, name: String, line: &mut usize| {
            let ns = t.pick(3);
            let l = *line;
            *line += ns + 2;
            let mut sc = mkscenario(name.clone(), (0..ns).map(|i| mkstep(format!("{name} step {i}"), l + 1 + i, i)).collect(), gen_tags(t, 25), l);
            // A row expanded from an outline keeps the outline's whole `examples` list: the tags of
            // its own block are already in `sc.tags`, those of sibling blocks are *not* its tags.
            if t.rare(1, 4) {
                for bi in 0..t.range(1, 2) {
                    sc.examples.push(gherkin::Examples {
                        keyword: "Examples".into(),
                        name: None,
                        description: None,
                        table: None,
                        tags: gen_tags(t, 40),
                        span: gherkin::Span::default(),
                        position: gherkin::LineCol { line: l + 20 + bi, col: 5 },
                    });
                }
            }
            sc
        };
        // Rows expanded from one outline share name, tags and `examples` and differ in position and
        // step texts only: the filter decides about each of them on its own.
        fn twin_rows(t: &mut Tape, list: &mut Vec<gherkin::Scenario>) {
            let mut i = 0;
            while i < list.len() {
                if !list[i].examples.is_empty() && t.chance(1, 2) {
                    for k in 1..=t.range(1, 2) {
                        let mut row = list[i].clone();
                        row.position.line += 50 + k;
                        for st in &mut row.steps {
                            st.value = format!("{} row {k}", st.value);
                        }
                        list.insert(i + k, row);
                    }
                    i += 2;
                }
                i += 1;
            }
        }
        let mut scs: Vec<_> = (0..t.pick(4)).map(|si| mk(t, format!("F{fi}.S{si}"), &mut line)).collect();
        twin_rows(t, &mut scs);
        let mut rules = vec![];
        for ri in 0..t.pick(3) {
            let rl = line;
            line += 1;
            let mut rs: Vec<_> = (0..t.pick(3)).map(|si| mk(t, format!("F{fi}.R{ri}.S{si}"), &mut line)).collect();
            twin_rows(t, &mut rs);
            rules.push(gherkin::Rule { keyword: "Rule".into(), name: format!("F{fi}.R{ri}"), description: None, background: None, scenarios: rs, tags: gen_tags(t, 35), span: gherkin::Span::default(), position: gherkin::LineCol { line: rl, col: 3 } });
        }
        features.push(gherkin::Feature {
            keyword: "Feature".into(),
            name: format!("F{fi}"),
            description: t.chance(1, 4).then(|| "some description".to_string()),
            background: bg,
            scenarios: scs,
            rules,
            tags: gen_tags(t, 20),
            span: gherkin::Span::default(),
            position: gherkin::LineCol { line: 1, col: 1 },
            path: Some(format!("/vt/c15_{fi}.feature").into()),
        });
    }
    // all 8 presence combinations of (name, tags, closure); `--name` and `--tags` conflict on the
    // command line but `with_cli(Opts { .. })` can carry both
    // (bit0 name, bit1 tags, bit2 closure); tags-only and tags+closure are weighted up
    let combo = [0usize, 1, 2, 2, 2, 3, 4, 5, 6, 6, 7, 2][t.pick(12)];
    Case {
        features,
        name_re: (combo & 1 != 0).then(|| NAME_RES[t.pick(NAME_RES.len())].to_string()),
        tags: (combo & 2 != 0).then(|| gen_expr(t, 0)),
        closure_mod: (combo & 4 != 0).then(|| (t.range(2, 3), t.pick(2))),
    }
}

fn inherited(f: &gherkin::Feature, r: Option<&gherkin::Rule>, s: &gherkin::Scenario) -> Vec<String> {
    f.tags.iter().chain(r.iter().flat_map(|r| r.tags.iter())).chain(s.tags.iter()).cloned().collect()
}

pub struct Out {
    pub violations: Vec<Violation>,
    pub nontrivial: bool,
    pub labels: Vec<&'static str>,
    pub sample: Value,
}

pub fn check(c: &Case) -> Out {
    let mut viol = vec![];
    // reference filter
    let name_re = c.name_re.as_ref().map(|r| regex::Regex::new(r).unwrap());
    let accept = |f: &gherkin::Feature, r: Option<&gherkin::Rule>, s: &gherkin::Scenario| -> bool {
        if let Some(re) = &name_re {
            re.is_match(&s.name)
        } else if let Some(op) = &c.tags {
            eval_tagexpr(op, &inherited(f, r, s))
        } else if let Some((m, k)) = c.closure_mod {
            s.position.line % m == k
        } else {
            true
        }
    };
    let mut rule_tag_decides = false;
    let (mut kept, mut dropped) = (0usize, 0usize);
    let expected: Vec<gherkin::Feature> = c
        .features
        .iter()
        .map(|f| {
            let mut e = f.clone();
            e.scenarios = f.scenarios.iter().filter(|s| accept(f, None, s)).cloned().collect();
            for (er, r) in e.rules.iter_mut().zip(&f.rules) {
                er.scenarios = r.scenarios.iter().filter(|s| accept(f, Some(r), s)).cloned().collect();
                if let (None, Some(op)) = (&name_re, &c.tags) {
                    for s in &r.scenarios {
                        let without: Vec<String> = f.tags.iter().chain(s.tags.iter()).cloned().collect();
                        if eval_tagexpr(op, &without) != eval_tagexpr(op, &inherited(f, Some(r), s)) {
                            rule_tag_decides = true;
                        }
                    }
                }
            }
            let n_in = f.scenarios.len() + f.rules.iter().map(|r| r.scenarios.len()).sum::<usize>();
            let n_out = e.scenarios.len() + e.rules.iter().map(|r| r.scenarios.len()).sum::<usize>();
            kept += n_out;
            dropped += n_in - n_out;
            e
        })
        .collect();
    // the real thing
    let store = Rc::new(RefCell::new(vec![]));
    let opts = cli::Opts::<cli::Empty, cli::Empty, cli::Empty, cli::Empty> { re_filter: name_re.clone(), tags_filter: c.tags.clone(), parser: cli::Empty, runner: cli::Empty, writer: cli::Empty, custom: cli::Empty };
    let cuc = Cucumber::<W, _, (), _, _, cli::Empty>::custom(VecParser(c.features.iter().cloned().map(Ok).collect()), RecordingRunner(Rc::clone(&store)), Rec::default()).with_cli(opts);
    // a configured `Cucumber` may be cloned before it is run: every other case runs the clone
    let cuc = if c.features.len() % 2 == 1 { cuc.clone() } else { cuc };
    let cm = c.closure_mod;
    let res = std::panic::catch_unwind(std::panic::AssertUnwindSafe(|| match cm {
        Some((m, k)) => {
            block_on(cuc.filter_run((), move |_, _, s| s.position.line % m == k));
        }
        None => {
            block_on(cuc.run(()));
        }
    }));
    if res.is_err() {
        viol.push(v("panic", "filter_run panicked".into()));
    }
    // (A feature in which nothing was accepted has nothing the property speaks about: whether the
    // runner is still handed its empty shell is left open, so such features are not compared.)
    let non_empty = |f: &gherkin::Feature| !f.scenarios.is_empty() || f.rules.iter().any(|r| !r.scenarios.is_empty());
    let got: Vec<gherkin::Feature> = store.borrow().iter().filter_map(|r| r.as_ref().ok().cloned()).filter(|f| non_empty(f)).collect();
    let expected: Vec<gherkin::Feature> = expected.into_iter().filter(|f| non_empty(f)).collect();
    if got.len() != expected.len() {
        viol.push(v("feature-count", format!("runner received {} features with scenarios, the filter leaves scenarios in {} of the parsed ones", got.len(), expected.len())));
    } else {
        for (g, e) in got.iter().zip(&expected) {
            if g != e {
                let names = |f: &gherkin::Feature| -> Vec<String> { f.scenarios.iter().map(|s| s.name.clone()).chain(f.rules.iter().flat_map(|r| r.scenarios.iter().map(|s| s.name.clone()))).collect() };
                let clause = if names(g) != names(e) {
                    if c.name_re.is_some() { "scenarios/name-filter" } else if c.tags.is_some() { "scenarios/tags-filter" } else { "scenarios/closure-filter" }
                } else {
                    "rest-of-feature-changed"
                };
                viol.push(v(clause, format!("feature {}: runner received scenarios {:?}, the active filter (name={:?} tags={:?} closure={:?}) accepts {:?}", e.name, names(g), c.name_re, c.tags.as_ref().map(render_tagexpr), c.closure_mod, names(e))));
                break;
            }
        }
    }
    // end to end through the real runner: exactly the accepted scenarios get Started
    if c.features.len() % 2 == 0 || kept % 3 == 0 {
        use cucumber::event::{Cucumber as Cu, Feature as Fe, Rule as Ru, Scenario as Sc};
        let rec = Rec::default();
        let opts = cli::Opts::<cli::Empty, cucumber::runner::basic::Cli, cli::Empty, cli::Empty> { re_filter: name_re.clone(), tags_filter: c.tags.clone(), parser: cli::Empty, runner: cucumber::runner::basic::Cli::default(), writer: cli::Empty, custom: cli::Empty };
        let cuc = Cucumber::<W, _, (), _, _, cli::Empty>::custom(VecParser(c.features.iter().cloned().map(Ok).collect()), cucumber::runner::Basic::<W>::default(), rec.clone()).with_cli(opts);
        let _ = std::panic::catch_unwind(std::panic::AssertUnwindSafe(|| match cm {
            Some((m, k)) => {
                block_on(cuc.filter_run((), move |_, _, s| s.position.line % m == k));
            }
            None => {
                block_on(cuc.run(()));
            }
        }));
        crate::lab::driver::install_probe_hook();
        let mut started: Vec<String> = rec
            .raw
            .borrow()
            .iter()
            .filter_map(|e| match e.as_ref().ok().map(|e| &e.value) {
                Some(Cu::Feature(_, Fe::Scenario(s, ev))) if matches!(ev.event, Sc::Started) => Some(s.name.clone()),
                Some(Cu::Feature(_, Fe::Rule(_, Ru::Scenario(s, ev)))) if matches!(ev.event, Sc::Started) => Some(s.name.clone()),
                _ => None,
            })
            .collect();
        let mut exp_names: Vec<String> = expected.iter().flat_map(|f| f.scenarios.iter().map(|s| s.name.clone()).chain(f.rules.iter().flat_map(|r| r.scenarios.iter().map(|s| s.name.clone())))).collect();
        started.sort();
        exp_names.sort();
        if started != exp_names {
            viol.push(v("started-set", format!("with the real runner the scenarios that got Started are {started:?}, the active filter accepts {exp_names:?}")));
        }
    }
    let nontrivial = kept > 0 && dropped > 0 && rule_tag_decides;
    let mut labels = vec![];
    if c.name_re.is_some() && (c.tags.is_some() || c.closure_mod.is_some()) {
        labels.push("name_overrides_other_filters");
    }
    if c.name_re.is_none() && c.tags.is_some() && c.closure_mod.is_some() {
        labels.push("tags_override_closure");
    }
    if kept > 0 && dropped > 0 {
        labels.push("partial_filter");
    }
    Out {
        violations: viol,
        nontrivial,
        labels,
        sample: json!({
            "features": c.features.iter().map(|f| json!({"name": f.name, "tags": f.tags, "scenarios": f.scenarios.iter().map(|s| json!([s.name, s.tags, s.position.line])).collect::<Vec<_>>(), "rules": f.rules.iter().map(|r| json!({"name": r.name, "tags": r.tags, "scenarios": r.scenarios.iter().map(|s| json!([s.name, s.tags, s.position.line])).collect::<Vec<_>>()})).collect::<Vec<_>>()})).collect::<Vec<_>>(),
            "name": c.name_re, "tags": c.tags.as_ref().map(render_tagexpr), "closure": c.closure_mod.map(|(m, k)| format!("line % {m} == {k}")),
            "kept": kept, "dropped": dropped,
        }),
    }
}

/// `TagOperation::eval` (and the CLI parser of tag expressions) vs the reference evaluator.
pub fn check_eval(t: &mut Tape) -> (Vec<Violation>, Value) {
    let op = gen_expr(t, 0);
    let tags = gen_tags(t, 40);
    let mut viol = vec![];
    let exp = eval_tagexpr(&op, &tags);
    let got = op.eval(tags.iter());
    if got != exp {
        viol.push(v("tag-eval", format!("`{}` over {tags:?}: eval() = {got}, boolean formula = {exp}", render_tagexpr(&op))));
    }
    // through the CLI parser: fully parenthesised rendering must evaluate the same
    let text = render_tagexpr(&op);
    match TagOperation::from_str(&text) {
        Ok(parsed) => {
            let g2 = parsed.eval(tags.iter());
            if g2 != exp {
                viol.push(v("tag-eval-cli", format!("`{text}` parsed from text over {tags:?}: eval() = {g2}, boolean formula = {exp}")));
            }
        }
        Err(e) => viol.push(v("tag-expr-parse", format!("`{text}` does not parse: {e}"))),
    }
    // through the command line proper: `--tags` / `-t` and `--name` / `-n` / `--scenario-name` as argv
    {
        use clap::Parser as _;
        let spell = |t: &mut Tape, long: &str, short: &str, val: &str| -> Vec<String> {
            match t.pick(3) {
                0 => vec![format!("--{long}={val}")],
                1 => vec![format!("-{short}"), val.to_string()],
                _ => vec![format!("--{long}"), val.to_string()],
            }
        };
        let mut argv = vec!["cucumber".to_string()];
        let by_name = t.chance(1, 3);
        let re_text = ["^F\\d+\\.S1$", "S0", "R\\d", "^$", "a|b"][t.pick(5)];
        if by_name {
            let long = if t.chance(1, 2) { "name" } else { "scenario-name" };
            argv.extend(spell(t, long, "n", re_text));
        } else {
            argv.extend(spell(t, "tags", "t", &text));
        }
        match cli::Opts::<cli::Empty, cli::Empty, cli::Empty>::try_parse_from(&argv) {
            Err(e) => viol.push(v("cli/rejected", format!("{argv:?} is rejected: {}", e.to_string().lines().next().unwrap_or("")))),
            Ok(o) => {
                if by_name {
                    if o.re_filter.as_ref().map(regex::Regex::as_str) != Some(re_text) || o.tags_filter.is_some() {
                        viol.push(v("cli/name", format!("{argv:?}: parsed name filter {:?}, tags filter given: {}", o.re_filter.as_ref().map(regex::Regex::as_str), o.tags_filter.is_some())));
                    }
                } else {
                    match &o.tags_filter {
                        Some(parsed) if o.re_filter.is_none() => {
                            if parsed.eval(tags.iter()) != exp {
                                viol.push(v("cli/tags", format!("{argv:?} over {tags:?}: parsed filter evaluates to {}, boolean formula = {exp}", !exp)));
                            }
                        }
                        _ => viol.push(v("cli/tags", format!("{argv:?}: tags filter missing or a name filter appeared"))),
                    }
                }
            }
        }
        // Both at once: the CLI may refuse the combination (it does today); if it accepts it, the
        // name must be what is left to filter by ("the --name regex if given, else --tags"), in
        // either order of the two options.
        if t.rare(1, 25) {
            for both in [["--name", "x", "--tags", "@a"], ["--tags", "@a", "--name", "x"]] {
                let argv: Vec<String> = std::iter::once("cucumber").chain(both).map(str::to_string).collect();
                if let Ok(o) = cli::Opts::<cli::Empty, cli::Empty, cli::Empty>::try_parse_from(&argv) {
                    if o.re_filter.as_ref().map(regex::Regex::as_str) != Some("x") {
                        viol.push(v("cli/name-lost-to-tags", format!("{argv:?} is accepted, but the name filter given is not kept: re_filter = {:?}, tags_filter = {:?}", o.re_filter, o.tags_filter.as_ref().map(render_tagexpr))));
                    }
                }
            }
        }
    }
    (viol, json!({"expr": text, "tags": tags, "value": exp}))
}
