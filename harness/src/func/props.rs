//! FuncLab properties as `engine::Property` implementations.

use serde_json::json;

use super::{c15, c16, c17, c18, c19, zoo};
use crate::{
    engine::{CaseOut, Ctx, Exhaustive, Input, Property, Tier},
    tape::{Tape, hash_str},
};

pub struct FuncProp {
    pub id: &'static str,
}

impl Property for FuncProp {
    fn id(&self) -> &'static str {
        self.id
    }

    fn rule(&self) -> String {
        match self.id {
            "C15" => "FuncLab: generated feature sets with tags on every level x all 8 presence combinations of --name regex / --tags expression (random AST, depth <= 4) / filter closure, run through Cucumber::custom(VecParser, RecordingRunner, ..).with_cli(..).filter_run(); expected = input features with scenarios filtered by a reference evaluator, everything else equal (gherkin::Feature: PartialEq). Each case also compares TagOperation::eval and the textual tag-expression parser with the reference boolean evaluator. Non-trivial iff the filter keeps some and drops some scenarios and a rule-level tag decides at least one. Distinct = hash of the decoded case.".into(),
            "C16" => "FuncLab: 1-3 generated .feature files per case (outlines at top level and in rules, 1-3 Examples tables, tagged / header-only tables, descriptions and comments before tables, adjacent / repeated / malformed / unknown placeholders, values with <, >, $, \\, regex metacharacters, placeholders in names, step texts, doc strings and step tables) written to disk and read through parser::Basic; reference = single-pass substitution applied to the gherkin crate's own unexpanded parse of the same file. Non-trivial iff a file has >= 2 data rows and a value containing a metacharacter. Distinct = hash of the file texts.".into(),
            "C17" => "FuncLab: 0-8 (keyword, regex from a grammar with nested / optional / named / alternated / multi-byte groups, optional Location) definitions registered in two tape-chosen permutations into fresh Collections; 1-6 step texts derived from the regexes and mutated; Collection::find compared with regex::Regex::{is_match, captures, capture_names}; the chosen fn pointer is invoked and records its index and Context. Non-trivial iff some step is ambiguous or a capture group does not participate. Distinct = hash of definitions + texts + orders.".into(),
            "C19" => "FuncLab: a second zoo of 40 functions generated at build time (harness/build.rs, VERIF_ZOO_SEED: literal / regex / expr attributes, 0-3 typed parameters, slices, #[step], sync/async, unit / Result / aliased Result, stacked attributes) checked with a generic reference over 4 texts per case, and a compiled zoo of 35 (function, attribute) pairs over one World (sync/async, unit/Result, typed FromStr args, slice, #[step]/`step` argument, literal/regex/expr, custom Parameter with one and several groups, several attributes on one fn); per case 8 step texts built from the entries' own templates with generated ints / words / floats / quoted strings / colours and mutated (prefix, suffix, case, doubled space, digits replaced, other keyword); World::collection().find() must agree with hand-written reference matchers, the chosen function is invoked and must record exactly the expected typed arguments, parse failures / returned Err must fail the step; the inventory is counted per keyword. Non-trivial iff a text with generated values matches an entry, or a parse failure / Err is exercised. Distinct = hash of the decoded texts and outcomes.".into(),
            "C18" => "FuncLab: every random case also renders a generated option set (--concurrency/-c, --fail-fast/--ff, --retry, --retry-after with humantime texts, --retry-tag-filter with a random expression; `--opt value`, `--opt=value` and short spellings, any order) as argv, parses it with cli::Opts<_, runner::basic::Cli, _> and compares every field with the generated value (durations with a reference unit table, filters as boolean functions over all 32 tag subsets). Exhaustive product of retry tag forms on scenario / rule / feature x neutral tags x --retry x --retry-after x --retry-tag-filter (28 800 cases) plus random cases (random budgets, humantime durations, filter ASTs, undocumented retry… tags which must only not panic); RetryOptions::parse_from_tags vs the reference resolver. Non-trivial iff retry tags on >= 2 levels, or a retry tag together with a CLI value. Distinct = hash of the decoded case.".into(),
            _ => String::new(),
        }
    }

    fn assumptions(&self) -> Vec<String> {
        match self.id {
            "C16" => vec!["the unexpanded parse by the `gherkin` crate (external dependency) is trusted; the generator checks that it contains the outlines it wrote".into(), "several unknown placeholders: the error may name any of them (R8); header-only tables produce nothing (R11)".into()],
            "C17" => vec!["`regex`'s own is_match/captures API is the reference".into(), "no two definitions share (keyword, regex, location) (R9)".into()],
            "C19" => vec!["macro expansion happens at compile time: the quantifier over programs is covered by a fixed representative zoo and by zoos generated at build time (one per VERIF_ZOO_SEED)".into(), "expr entries are matched against regexes hand-derived from the Cucumber Expressions spec; float inputs are generated in plain forms only".into()],
            "C18" => vec!["undocumented `retry…` tags are only required not to panic (R7); at most one retry tag per level (R10)".into(), "the CLI/builder merge half is checked on real runs by the C05/C06/C08 oracles in tags mode and by `C18` RunnerLab cases".into()],
            _ => vec![],
        }
    }

    fn tape_lens(&self, _: Tier) -> (usize, usize) {
        if self.id == "C18" { (800, 160) } else { (400, 0) }
    }

    fn cases(&self, tier: Tier) -> u64 {
        let q = match self.id {
            "C15" => 40_000,
            "C16" => 8_000,
            "C17" => 16_000,
            "C18" => 60_000,
            "C19" => 40_000,
            _ => 1000,
        };
        match tier {
            Tier::Quick => q,
            Tier::Thorough => q * 20,
        }
    }

    fn floors(&self) -> Vec<(&'static str, f64)> {
        vec![("nontrivial", 0.03)]
    }

    fn run(&self, input: &Input, ctx: &Ctx) -> CaseOut {
        let mut t = Tape::new(input.a.clone());
        match self.id {
            "C15" => {
                let case = c15::gen_case(&mut t);
                let mut out = c15::check(&case);
                let (ev, evs) = c15::check_eval(&mut t);
                out.violations.extend(ev);
                let mut labels = out.labels;
                if out.nontrivial {
                    labels.push("nontrivial");
                }
                CaseOut {
                    violations: out.violations,
                    nontrivial: out.nontrivial,
                    hash: hash_str(&out.sample.to_string()),
                    labels,
                    sample: ctx.want_sample.then(|| json!({"filter_case": out.sample, "eval_case": evs})),
                    ..CaseOut::default()
                }
            }
            "C16" => {
                let n = hash_str(&format!("{:?}", &input.a[..input.a.len().min(24)]));
                let out = c16::check(&mut t, n);
                let mut labels = out.labels;
                if out.nontrivial {
                    labels.push("nontrivial");
                }
                CaseOut {
                    violations: out.violations,
                    nontrivial: out.nontrivial,
                    hash: hash_str(&out.sample["files"].to_string()),
                    labels,
                    sample: ctx.want_sample.then_some(out.sample),
                    harness_error: out.harness_error,
                    ..CaseOut::default()
                }
            }
            "C17" => {
                let case = c17::gen_case(&mut t);
                let out = c17::check(&case);
                let mut labels = out.labels;
                if out.nontrivial {
                    labels.push("nontrivial");
                }
                CaseOut {
                    violations: out.violations,
                    nontrivial: out.nontrivial,
                    hash: hash_str(&out.sample.to_string()),
                    labels,
                    sample: ctx.want_sample.then_some(out.sample),
                    ..CaseOut::default()
                }
            }
            "C19" => {
                crate::lab::driver::install_probe_hook();
                let es = zoo::entries();
                let mut out = c19::check(&mut t, &es);
                if input.a.first().is_some_and(|x| x % 64 == 0) {
                    out.violations.extend(c19::check_registration(&es));
                    out.violations.extend(super::zoo2::check_registration(&super::zoo2::entries2()));
                }
                // second zoo: functions generated at build time (VERIF_ZOO_SEED), generic reference
                let out2 = super::zoo2::check(&mut t, 4);
                out.violations.extend(out2.violations);
                out.labels.extend(out2.labels);
                out.nontrivial |= out2.nontrivial;
                out.sample["generated_zoo"] = out2.sample;
                crate::lab::driver::install_probe_hook();
                let mut labels = out.labels;
                if out.nontrivial {
                    labels.push("nontrivial");
                }
                CaseOut {
                    violations: out.violations,
                    nontrivial: out.nontrivial,
                    hash: hash_str(&out.sample.to_string()),
                    labels,
                    sample: ctx.want_sample.then_some(out.sample),
                    counters: vec![("step_texts", 12)],
                    ..CaseOut::default()
                }
            }
            "C18" if t.rare(1, 12) => {
                // CLI / builder merge, observed on a real run (tags mode: builder and CLI values both generated)
                use crate::lab::{self, oracles as o, props as lp};
                let mut profile = lp::profile_for("C05", ctx.tier, ctx);
                profile.p_retry_tags_mode = 100;
                profile.p_cli_conc = 50;
                profile.p_fail_fast = 30;
                profile.p_lazy_parser = 0;
                let rest: Vec<u32> = input.a.iter().skip(t.consumed()).copied().collect();
                let j = lp::execute(&Input { a: rest, b: input.b.clone() }, &profile);
                let (endv, herr) = o::check_end(&j.log);
                lab::driver::install_probe_hook();
                let mut violations = vec![];
                if endv.is_empty() && j.m.violations.is_empty() && herr.is_none() {
                    for vi in o::check_c05(&j.case, &j.log, &j.m).into_iter().chain(o::check_c06(&j.case, &j.log, &j.m)).chain(o::check_c08(&j.case, &j.log, &j.m)) {
                        let clause = vi.sig.replace('/', "-");
                        violations.push(crate::engine::Violation::new(format!("C18/merge/{clause}"), vi.msg));
                    }
                }
                let c = &j.case;
                let both = |a: bool, b: bool| a && b;
                let nontrivial = both(c.retry_cli.retry.is_some(), c.retry_builder.retry.is_some())
                    || both(c.retry_cli.after.is_some(), c.retry_builder.after.is_some())
                    || both(c.retry_cli.filter.is_some(), c.retry_builder.filter.is_some())
                    || (c.conc_cli.is_some() && c.conc_builder_set)
                    || (c.fail_fast_cli != c.fail_fast_builder);
                let d = c.describe();
                CaseOut {
                    violations,
                    nontrivial,
                    hash: hash_str(&d.to_string()),
                    labels: if nontrivial { vec!["nontrivial", "merge_on_real_run"] } else { vec!["merge_on_real_run"] },
                    sample: ctx.want_sample.then(|| json!({"merge_case": {"retry": d["retry"], "concurrency": d["concurrency"], "fail_fast": d["fail_fast"]}})),
                    excluded: c.excluded,
                    harness_error: herr,
                    ..CaseOut::default()
                }
            }
            "C18" => {
                let case = c18::gen_case(&mut t);
                let (mut violations, nontrivial) = c18::check(&case);
                let (cv, cli_sample) = c18::check_cli(&mut t);
                violations.extend(cv);
                let mut d = case.describe();
                d["command_line"] = cli_sample;
                CaseOut {
                    violations,
                    nontrivial,
                    hash: hash_str(&d.to_string()),
                    labels: if nontrivial { vec!["nontrivial", "cli_argv_parsed"] } else { vec!["cli_argv_parsed"] },
                    sample: ctx.want_sample.then_some(d),
                    ..CaseOut::default()
                }
            }
            _ => CaseOut::default(),
        }
    }

    fn exhaustive(&self, _tier: Tier, shard: (u64, u64), _ctx: &Ctx, sink: &mut dyn FnMut(CaseOut, Input) -> bool) -> Option<Exhaustive> {
        if self.id != "C18" {
            return None;
        }
        let mut first = true;
        let mut complete = true;
        let _n = c18::exhaustive(shard, &mut |case, violations, nontrivial| {
            let d = case.describe();
            let out = CaseOut {
                violations,
                nontrivial,
                hash: hash_str(&d.to_string()),
                labels: if nontrivial { vec!["nontrivial", "exhaustive_product"] } else { vec!["exhaustive_product"] },
                sample: first.then_some(d),
                ..CaseOut::default()
            };
            first = false;
            let ok = sink(out, Input { a: vec![], b: vec![] });
            complete &= ok;
            ok
        });
        Some(Exhaustive { description: format!("full product of retry tag forms {{none, @retry, @retry(n), @retry.after(d), @retry(n).after(d)}} on scenario x rule (or no rule) x feature, x 8 neutral-tag placements x --retry {{-,0,5}} x --retry-after {{-,7ms}} x --retry-tag-filter {{-, x, not x, x and y}} = 28 800 cases, sharded over the workers"), complete, included: _n, truncated: 0 })
    }
}
