//! C18: `RetryOptions::parse_from_tags` vs the reference resolver (exhaustive product + random).

use std::time::Duration;

use cucumber::{
    gherkin::{self, tagexpr::TagOperation},
    runner::basic::{Cli, RetryOptions},
};
use serde_json::{Value, json};

use crate::{
    engine::Violation,
    refmodel::{RetryCfg, eval_tagexpr, render_tagexpr, resolve_retry},
    tape::Tape,
};

fn v(sig: &str, msg: String) -> Violation {
    Violation::new(format!("C18/{sig}"), msg)
}

fn sc(tags: Vec<String>) -> gherkin::Scenario {
    gherkin::Scenario { keyword: "Scenario".into(), name: "s".into(), description: None, steps: vec![], examples: vec![], tags, span: gherkin::Span::default(), position: gherkin::LineCol::default() }
}
fn ru(tags: Vec<String>) -> gherkin::Rule {
    gherkin::Rule { keyword: "Rule".into(), name: "r".into(), description: None, background: None, scenarios: vec![], tags, span: gherkin::Span::default(), position: gherkin::LineCol::default() }
}
fn fe(tags: Vec<String>) -> gherkin::Feature {
    gherkin::Feature { keyword: "Feature".into(), name: "f".into(), description: None, background: None, scenarios: vec![], rules: vec![], tags, span: gherkin::Span::default(), position: gherkin::LineCol::default(), path: None }
}

#[derive(Clone, Debug)]
pub struct Case {
    pub scenario_tags: Vec<String>,
    pub rule_tags: Option<Vec<String>>,
    pub feature_tags: Vec<String>,
    pub cfg: RetryCfg,
}

impl Case {
    pub fn describe(&self) -> Value {
        json!({"scenario_tags": self.scenario_tags, "rule_tags": self.rule_tags, "feature_tags": self.feature_tags,
               "cli": {"retry": self.cfg.retry, "retry_after": self.cfg.after.map(|d| humantime::format_duration(d).to_string()), "retry_tag_filter": self.cfg.filter.as_ref().map(render_tagexpr)}})
    }
}

/// Returns (violations, nontrivial)
pub fn check(c: &Case) -> (Vec<Violation>, bool) {
    let feat = fe(c.feature_tags.clone());
    let rule = c.rule_tags.clone().map(ru);
    let scen = sc(c.scenario_tags.clone());
    let cli = Cli { concurrency: None, fail_fast: false, retry: c.cfg.retry, retry_after: c.cfg.after, retry_tag_filter: c.cfg.filter.clone() };
    let got = std::panic::catch_unwind(|| RetryOptions::parse_from_tags(&feat, rule.as_ref(), &scen, &cli));
    let exp = resolve_retry(&c.feature_tags, c.rule_tags.as_deref(), &c.scenario_tags, &c.cfg);
    let retry_tags = |t: &[String]| t.iter().filter(|x| x.starts_with("retry")).count();
    let documented = |t: &[String]| t.iter().filter(|x| x.starts_with("retry")).all(|x| crate::refmodel::parse_retry_tag(x).is_some());
    let in_domain = documented(&c.scenario_tags) && c.rule_tags.as_deref().is_none_or(documented) && documented(&c.feature_tags);
    let levels = [retry_tags(&c.scenario_tags), c.rule_tags.as_deref().map_or(0, retry_tags), retry_tags(&c.feature_tags)];
    let nontrivial = levels.iter().filter(|n| **n > 0).count() >= 2 || (levels.iter().any(|n| *n > 0) && (c.cfg.retry.is_some() || c.cfg.after.is_some()));
    let mut viol = vec![];
    match got {
        Err(_) => viol.push(v("panic", format!("parse_from_tags panicked on {}", c.describe()))),
        Ok(got) => {
            if in_domain {
                let g = got.map(|o| (o.retries.current, o.retries.left, o.after));
                let e = exp.map(|(n, d)| (0usize, n, d));
                if g != e {
                    let clause = match (&g, &e) {
                        (Some(_), None) | (None, Some(_)) => "applies",
                        (Some(a), Some(b)) if a.1 != b.1 => "budget",
                        (Some(a), Some(b)) if a.2 != b.2 => "delay",
                        _ => "initial-counter",
                    };
                    viol.push(v(clause, format!("parse_from_tags gave (current, left, after) = {g:?}, the documented resolution gives {e:?} for {}", c.describe())));
                }
            }
        }
    }
    (viol, nontrivial && in_domain)
}

pub const FORMS: usize = 5;

pub fn tag_form(form: usize, n: usize, ms: u64) -> Option<String> {
    match form {
        0 => None,
        1 => Some("retry".into()),
        2 => Some(format!("retry({n})")),
        3 => Some(format!("retry.after({ms}ms)")),
        _ => Some(format!("retry({n}).after({ms}ms)")),
    }
}

pub fn filters() -> Vec<Option<TagOperation>> {
    let t = |s: &str| TagOperation::Tag(s.into());
    vec![None, Some(t("x")), Some(TagOperation::Not(Box::new(t("x")))), Some(TagOperation::And(Box::new(t("x")), Box::new(t("y"))))]
}

/// The exhaustive product of DESIGN 6/C18: 5 x 6 x 5 tag placements x 8 neutral-tag placements x 3 x 2 x 4 = 28 800.
pub fn exhaustive(shard: (u64, u64), sink: &mut dyn FnMut(&Case, Vec<Violation>, bool) -> bool) -> u64 {
    let mut n = 0u64;
    let mut idx = 0u64;
    for s in 0..FORMS {
        for r in 0..=FORMS {
            for f in 0..FORMS {
                for extra in 0..8u8 {
                    for cr in [None, Some(0usize), Some(5)] {
                        for ca in [None, Some(Duration::from_millis(7))] {
                            for flt in filters() {
                                idx += 1;
                                if idx % shard.1 != shard.0 {
                                    continue;
                                }
                                let mut st: Vec<String> = vec![];
                                if extra & 1 != 0 {
                                    st.push("x".into());
                                }
                                st.extend(tag_form(s, 3, 20));
                                let rt = (r < FORMS).then(|| {
                                    let mut rt: Vec<String> = vec![];
                                    if extra & 2 != 0 {
                                        rt.push("y".into());
                                    }
                                    rt.extend(tag_form(r, 4, 30));
                                    rt
                                });
                                let mut ft: Vec<String> = vec![];
                                if extra & 4 != 0 {
                                    ft.push("x".into());
                                }
                                ft.extend(tag_form(f, 2, 40));
                                let case = Case { scenario_tags: st, rule_tags: rt, feature_tags: ft, cfg: RetryCfg { retry: cr, after: ca, filter: flt } };
                                let (viol, nt) = check(&case);
                                n += 1;
                                if !sink(&case, viol, nt) {
                                    return n;
                                }
                            }
                        }
                    }
                }
            }
        }
    }
    n
}

fn gen_expr(t: &mut Tape, depth: usize) -> TagOperation {
    let tags = ["x", "y", "z", "serial", "retry"];
    if depth >= 3 || t.chance(2, 5) {
        return TagOperation::Tag(tags[t.pick(tags.len())].into());
    }
    match t.pick(3) {
        0 => TagOperation::And(Box::new(gen_expr(t, depth + 1)), Box::new(gen_expr(t, depth + 1))),
        1 => TagOperation::Or(Box::new(gen_expr(t, depth + 1)), Box::new(gen_expr(t, depth + 1))),
        _ => TagOperation::Not(Box::new(gen_expr(t, depth + 1))),
    }
}

const DURS: &[&str] = &["1ms", "20ms", "1s", "1s 500ms", "2min", "1h", "3sec", "15us", "0s"];
/// Undocumented `retry…` tags (R7): only required not to panic.
const ODD: &[&str] = &["retryable", "retry(x)", "retry()", "retry(3", "retry.after", "retry.after()", "retry.after(soon)", "retry(2).after(1ms)x", "retry(-1)", "retry(99999999999999999999999)", "retry(1).after(1ms).after(2ms)", "retrying(2)", "retry (2)"];

fn gen_tags(t: &mut Tape) -> Vec<String> {
    let mut v = vec![];
    for n in ["x", "y", "z", "serial"] {
        if t.rare(1, 4) {
            v.push(n.to_string());
        }
    }
    if t.rare(2, 5) {
        let tag = if t.rare(1, 8) {
            ODD[t.pick(ODD.len())].to_string()
        } else {
            let n = t.pick(6);
            let d = DURS[t.pick(DURS.len())];
            match t.pick(4) {
                0 => "retry".to_string(),
                1 => format!("retry({n})"),
                2 => format!("retry.after({d})"),
                _ => format!("retry({n}).after({d})"),
            }
        };
        let pos = t.pick(v.len() + 1);
        v.insert(pos, tag);
    }
    v
}

pub fn gen_case(t: &mut Tape) -> Case {
    let scenario_tags = gen_tags(t);
    let rule_tags = t.chance(1, 2).then(|| gen_tags(t));
    let feature_tags = gen_tags(t);
    let cfg = RetryCfg {
        retry: t.rare(1, 3).then(|| t.pick(5)),
        after: t.rare(1, 3).then(|| humantime::parse_duration(DURS[t.pick(DURS.len())]).unwrap()),
        filter: t.rare(1, 3).then(|| gen_expr(t, 0)),
    };
    Case { scenario_tags, rule_tags, feature_tags, cfg }
}

// ------------------------------------------------------------------------------------------
// the command line itself: `--retry`, `--retry-after`, `--retry-tag-filter`, `--concurrency`,
// `--fail-fast` as argv strings -> the values the resolver / merge consume

/// Generates a runner option set, renders it as argv in a tape-chosen spelling and order, parses it
/// with the crate's own `cli::Opts` and compares every field with the generated value.
pub fn check_cli(t: &mut Tape) -> (Vec<Violation>, Value) {
    use clap::Parser as _;
    use cucumber::{cli, runner, tag::Ext as _};
    let conc = t.rare(1, 2).then(|| 1 + t.pick(200));
    let ff = t.rare(1, 3);
    let retry = t.rare(1, 2).then(|| t.pick(12));
    let after = t.rare(1, 2).then(|| DURS[t.pick(DURS.len())]);
    let filter = t.rare(1, 2).then(|| gen_expr(t, 0));
    let mut groups: Vec<Vec<String>> = vec![];
    let mut opt = |t: &mut Tape, long: &str, short: Option<&str>, val: String| {
        match (t.pick(3), short) {
            (0, _) => vec![format!("--{long}={val}")],
            (1, Some(s)) => vec![format!("-{s}"), val],
            _ => vec![format!("--{long}"), val],
        }
    };
    if let Some(c) = conc {
        groups.push(opt(t, "concurrency", Some("c"), c.to_string()));
    }
    if ff {
        groups.push(vec![if t.chance(1, 2) { "--fail-fast".to_string() } else { "--ff".to_string() }]);
    }
    if let Some(r) = retry {
        groups.push(opt(t, "retry", None, r.to_string()));
    }
    if let Some(a) = after {
        groups.push(opt(t, "retry-after", None, a.to_string()));
    }
    if let Some(f) = &filter {
        groups.push(opt(t, "retry-tag-filter", None, render_tagexpr(f)));
    }
    // any order
    let mut argv: Vec<String> = vec!["cucumber".into()];
    while !groups.is_empty() {
        let i = t.pick(groups.len());
        argv.extend(groups.remove(i));
    }
    let mut viol = vec![];
    let sample = json!({"argv": argv});
    match cli::Opts::<cli::Empty, runner::basic::Cli, cli::Empty>::try_parse_from(&argv) {
        Err(e) => viol.push(v("cli/rejected", format!("{argv:?} is rejected: {}", e.to_string().lines().next().unwrap_or("")))),
        Ok(o) => {
            let r = &o.runner;
            if r.concurrency != conc {
                viol.push(v("cli/concurrency", format!("{argv:?}: concurrency parsed as {:?}, given {conc:?}", r.concurrency)));
            }
            if r.fail_fast != ff {
                viol.push(v("cli/fail-fast", format!("{argv:?}: fail_fast parsed as {}, given {ff}", r.fail_fast)));
            }
            if r.retry != retry {
                viol.push(v("cli/retry", format!("{argv:?}: retry parsed as {:?}, given {retry:?}", r.retry)));
            }
            let exp_after = after.map(ref_duration);
            if r.retry_after != exp_after {
                viol.push(v("cli/retry-after", format!("{argv:?}: retry_after parsed as {:?}, the text means {exp_after:?}", r.retry_after)));
            }
            match (&r.retry_tag_filter, &filter) {
                (None, None) => {}
                (Some(got), Some(exp)) => {
                    // same boolean function over every subset of the tag universe
                    let uni = ["x", "y", "z", "serial", "retry"];
                    for mask in 0u32..32 {
                        let tags: Vec<String> = uni.iter().enumerate().filter(|(i, _)| mask & (1 << i) != 0).map(|(_, s)| (*s).to_string()).collect();
                        if got.eval(tags.iter()) != eval_tagexpr(exp, &tags) {
                            viol.push(v("cli/retry-tag-filter", format!("{argv:?}: the parsed filter differs from `{}` over tags {tags:?}", render_tagexpr(exp))));
                            break;
                        }
                    }
                }
                (g, e) => viol.push(v("cli/retry-tag-filter", format!("{argv:?}: filter parsed as {:?}, given {:?}", g.is_some(), e.is_some()))),
            }
            if o.re_filter.is_some() || o.tags_filter.is_some() {
                viol.push(v("cli/foreign-option", format!("{argv:?}: --name / --tags set although not given")));
            }
        }
    }
    (viol, sample)
}

/// Reference reading of the duration texts in `DURS` (value, unit pairs separated by spaces).
fn ref_duration(text: &str) -> Duration {
    let mut total = Duration::ZERO;
    for part in text.split(' ') {
        let digits: String = part.chars().take_while(char::is_ascii_digit).collect();
        let n: u64 = digits.parse().unwrap();
        total += match &part[digits.len()..] {
            "us" => Duration::from_micros(n),
            "ms" => Duration::from_millis(n),
            "s" | "sec" => Duration::from_secs(n),
            "min" => Duration::from_secs(60 * n),
            "h" => Duration::from_secs(3600 * n),
            u => panic!("unit {u} not in the reference table"),
        };
    }
    total
}
