//! C19: step attributes register and dispatch functions as written.

use cucumber::{
    World as _,
    codegen::{StepConstructor as _, WorldInventory, inventory},
    gherkin::{self, StepType},
};
use futures::executor::block_on;
use serde_json::{Value, json};

use super::zoo::{Entry, Kw, ZW};
use crate::{engine::Violation, tape::Tape};

fn v(sig: &str, msg: String) -> Violation {
    Violation::new(format!("C19/{sig}"), msg)
}

const WORDS: &[&str] = &["alice", "Bob", "x1", "ünï", "under_score", "a"];
const QUOTED: &[&str] = &["\"hello\"", "'single'", "\"with \\\" escape\"", "\"\"", "'it''s'", "\"uni ☕\""];
const ANY: &[&str] = &["at all", "", "multi word  text", "émoji ☕", "goes goes"];
const COLORS: &[&str] = &["red", "green", "blue"];

fn fill(t: &mut Tape, tpl: &str) -> String {
    let mut out = String::new();
    let mut rest = tpl;
    while let Some(i) = rest.find('{') {
        out.push_str(&rest[..i]);
        let kind = &rest[i..i + 3];
        match kind {
            "{n}" => out.push_str(&[t.pick(10), t.pick(256), t.pick(70000), 0][t.pick(4)].to_string()),
            "{w}" => out.push_str(WORDS[t.pick(WORDS.len())]),
            "{f}" => out.push_str(&format!("{}{}.{}", if t.chance(1, 4) { "-" } else { "" }, t.pick(100), t.pick(1000))),
            "{q}" => out.push_str(QUOTED[t.pick(QUOTED.len())]),
            "{c}" => out.push_str(COLORS[t.pick(COLORS.len())]),
            "{x}" => out.push_str(ANY[t.pick(ANY.len())]),
            _ => out.push_str(kind),
        }
        rest = &rest[i + 3..];
    }
    out.push_str(rest);
    out
}

fn mutate(t: &mut Tape, s: String) -> String {
    match t.pick(10) {
        0 => format!("{s} trailing"),
        1 => format!("leading {s}"),
        2 => s.to_uppercase(),
        3 => s.replacen(' ', "  ", 1),
        4 => s.replace(|c: char| c.is_ascii_digit(), "x"),
        5 => format!(" {s}"),
        // proper prefixes / suffixes (cut at a char boundary) and the sides of an alternation bar:
        // what an unanchored or unescaped literal would still accept
        6 => {
            let cuts: Vec<usize> = s.char_indices().map(|(i, _)| i).skip(1).collect();
            if cuts.is_empty() { s } else { s[..cuts[t.pick(cuts.len())]].to_string() }
        }
        7 => {
            let cuts: Vec<usize> = s.char_indices().map(|(i, _)| i).skip(1).collect();
            if cuts.is_empty() { s } else { s[cuts[t.pick(cuts.len())]..].to_string() }
        }
        8 if s.contains('|') => {
            let parts: Vec<&str> = s.split('|').collect();
            parts[t.pick(parts.len())].to_string()
        }
        _ => s,
    }
}

fn step(kw: Kw, text: &str) -> gherkin::Step {
    let (k, ty) = match kw {
        Kw::Given => ("Given ", StepType::Given),
        Kw::When => ("When ", StepType::When),
        Kw::Then => ("Then ", StepType::Then),
    };
    gherkin::Step { keyword: k.into(), ty, value: text.into(), docstring: None, table: None, span: gherkin::Span::default(), position: gherkin::LineCol { line: 7, col: 5 } }
}

pub struct Out {
    pub violations: Vec<Violation>,
    pub nontrivial: bool,
    pub labels: Vec<&'static str>,
    pub sample: Value,
}

/// Registration: every (entry, attribute) is in the inventory exactly once, under its keyword only.
pub fn check_registration(es: &[Entry]) -> Vec<Violation> {
    let mut viol = vec![];
    let count = |kw: Kw| -> Vec<String> {
        match kw {
            Kw::Given => inventory::iter::<<ZW as WorldInventory>::Given>.into_iter().map(|s| s.inner().1().as_str().to_string()).collect(),
            Kw::When => inventory::iter::<<ZW as WorldInventory>::When>.into_iter().map(|s| s.inner().1().as_str().to_string()).collect(),
            Kw::Then => inventory::iter::<<ZW as WorldInventory>::Then>.into_iter().map(|s| s.inner().1().as_str().to_string()).collect(),
        }
    };
    for kw in [Kw::Given, Kw::When, Kw::Then] {
        let registered = count(kw);
        let expected = es.iter().filter(|e| e.kw == kw).count();
        if registered.len() != expected {
            viol.push(v("registration-count", format!("{kw:?}: {} definitions in the inventory, the zoo has {expected} `#[{}]` attributes; regexes: {registered:?}", registered.len(), format!("{kw:?}").to_lowercase())));
        }
    }
    let coll = ZW::collection();
    // reachable under its keyword through its first template; the chosen function is the right one
    for e in es {
        let text = e.templates[0].replace("{n}", "7").replace("{w}", "bob").replace("{f}", "1.5").replace("{q}", "\"hi\"").replace("{c}", "red").replace("{x}", "it");
        // an attribute written on two functions makes its text ambiguous: both are registered
        let n_same = es.iter().filter(|o| o.kw == e.kw && regex::Regex::new(o.re).is_ok_and(|r| r.is_match(&text))).count();
        match coll.find(&step(e.kw, &text)) {
            Ok(Some(_)) if n_same == 1 => {}
            Err(amb) if n_same >= 2 && amb.possible_matches.len() == n_same => {}
            other => viol.push(v("not-reachable", format!("`{}` ({:?}) is not reachable through `{text}`: {:?}", e.func, e.kw, other.map(|o| o.is_some()).map_err(|e| e.to_string())))),
        }
    }
    viol
}

pub fn check(t: &mut Tape, es: &[Entry]) -> Out {
    thread_local! {
        static COLL: cucumber::step::Collection<ZW> = ZW::collection();
        // what a cloned runner / `Cucumber` dispatches through
        static COLL_CLONE: cucumber::step::Collection<ZW> = ZW::collection().clone();
        static RES: Vec<regex::Regex> = super::zoo::entries().iter().map(|e| regex::Regex::new(e.re).unwrap()).collect();
    }
    if t.chance(1, 3) {
        COLL_CLONE.with(|coll| RES.with(|res| check_with(t, es, coll, res)))
    } else {
        COLL.with(|coll| RES.with(|res| check_with(t, es, coll, res)))
    }
}

fn check_with(t: &mut Tape, es: &[Entry], coll: &cucumber::step::Collection<ZW>, res: &[regex::Regex]) -> Out {
    let mut viol = vec![];
    let mut labels = vec![];
    let mut nontrivial = false;
    let mut rows = vec![];
    for _ in 0..8 {
        let e = &es[t.pick(es.len())];
        let tpl = e.templates[t.pick(e.templates.len())];
        let filled = fill(t, tpl);
        let text = mutate(t, filled);
        // the keyword under test: usually the entry's own, sometimes another one
        let kw = if t.chance(1, 5) { [Kw::Given, Kw::When, Kw::Then][t.pick(3)] } else { e.kw };
        // reference: candidates among entries of that keyword
        let cand_idx: Vec<usize> = (0..es.len()).filter(|i| es[*i].kw == kw && res[*i].is_match(&text)).collect();
        let cands: Vec<&Entry> = cand_idx.iter().map(|i| &es[*i]).collect();
        let got = coll.find(&step(kw, &text));
        let mut row = json!({"keyword": format!("{kw:?}"), "text": text, "candidates": cands.iter().map(|c| c.func).collect::<Vec<_>>()});
        match (cands.len(), got) {
            (0, Ok(None)) => labels.push("no_match"),
            (0, Ok(Some((_, _, loc, _)))) => viol.push(v("unexpected-match", format!("{kw:?} `{text}` matches no zoo attribute as written, but find() chose the definition at {loc:?}"))),
            (0, Err(e)) => viol.push(v("unexpected-match", format!("{kw:?} `{text}`: unexpected ambiguity {e}"))),
            (1, Ok(Some((f, _, _, ctx)))) => {
                let e = cands[0];
                let caps = res[cand_idx[0]].captures(&text).unwrap();
                let exp = (e.expect)(&caps, &text);
                let mut w = ZW::default();
                let res = std::panic::catch_unwind(std::panic::AssertUnwindSafe(|| block_on(f(&mut w, ctx))));
                row["expected"] = json!(exp);
                row["log"] = json!(w.log);
                if tpl.contains('{') && !tpl.contains("{x}") || e.re.contains("eyes") {
                    nontrivial = true;
                }
                match (&exp, res) {
                    (Some(line), Ok(())) => {
                        labels.push("dispatched");
                        if w.log != vec![line.clone()] {
                            viol.push(v("arguments", format!("{kw:?} `{text}` -> `{}`: function recorded {:?}, expected [{line:?}]", e.func, w.log)));
                        }
                    }
                    (Some(line), Err(_)) => viol.push(v("unexpected-step-failure", format!("{kw:?} `{text}` -> `{}`: the step panicked, expected the call {line}", e.func))),
                    (None, Err(_)) => {
                        labels.push("parse_failure_or_err_fails_step");
                        nontrivial = true;
                    }
                    (None, Ok(())) => viol.push(v("failure-ignored", format!("{kw:?} `{text}` -> `{}`: an unparsable capture / returned Err must make the step fail, but it completed (log {:?})", e.func, w.log))),
                }
            }
            (1, other) => viol.push(v("missed-match", format!("{kw:?} `{text}` matches `{}` as written, but find() gave {:?}", cands[0].func, other.map(|o| o.is_some()).map_err(|e| e.to_string())))),
            (n, Err(_)) if n >= 2 => labels.push("ambiguous"),
            (n, other) => viol.push(v("ambiguity-missed", format!("{kw:?} `{text}` matches {n} zoo attributes {:?}, but find() gave {:?}", cands.iter().map(|c| c.func).collect::<Vec<_>>(), other.map(|o| o.is_some()).map_err(|e| e.to_string())))),
        }
        rows.push(row);
    }
    labels.sort_unstable();
    labels.dedup();
    Out { violations: viol, nontrivial, labels, sample: json!({"steps": rows}) }
}

// ------------------------------------------------------------------------------------------
// C10 through the attribute macros: a step *returning* `Err` (every spelling of the return type in
// the zoo) run by the real runner must become a Failed event carrying the error's text, stop the
// scenario there, and leave the rest of the run untouched.

/// (keyword type, text that errs, text that passes, error text)
const FALLIBLE: &[(StepType, &str, &str, &str)] = &[
    (StepType::Then, "result err", "result ok", "zoo-err"),
    (StepType::When, "async result err", "async result ok", "zoo-async-err"),
    (StepType::Then, "alias result err", "alias result ok", "zoo-alias-err"),
    (StepType::Given, "io result err", "io result ok", "zoo-io-err"),
    (StepType::When, "boxed result err", "boxed result ok", "zoo-boxed-err"),
];

pub fn check_macro_step_errors(t: &mut Tape, prefix: &str) -> (Vec<Violation>, Value) {
    use cucumber::{Runner as _, event, runner};
    use futures::StreamExt as _;
    let vio = |sig: &str, msg: String| Violation::new(format!("{prefix}/{sig}"), msg);
    // 1..3 scenarios of 1..4 fallible steps each; each step errs with probability 1/3
    let nsc = t.range(1, 3);
    let mut plan: Vec<Vec<(usize, bool)>> = vec![];
    let mut scenarios = vec![];
    let mut line = 2;
    for si in 0..nsc {
        let ns = t.range(1, 4);
        let steps_plan: Vec<(usize, bool)> = (0..ns).map(|_| (t.pick(FALLIBLE.len()), t.rare(1, 3))).collect();
        let steps: Vec<gherkin::Step> = steps_plan
            .iter()
            .enumerate()
            .map(|(i, (k, errs))| {
                let (ty, bad, good, _) = FALLIBLE[*k];
                let kw = match ty {
                    StepType::Given => "Given ",
                    StepType::When => "When ",
                    StepType::Then => "Then ",
                };
                gherkin::Step { keyword: kw.into(), ty, value: (if *errs { bad } else { good }).into(), docstring: None, table: None, span: gherkin::Span::default(), position: gherkin::LineCol { line: line + 1 + i, col: 5 } }
            })
            .collect();
        scenarios.push(gherkin::Scenario { keyword: "Scenario".into(), name: format!("M{si}"), description: None, steps, examples: vec![], tags: vec![], span: gherkin::Span::default(), position: gherkin::LineCol { line, col: 3 } });
        line += ns + 2;
        plan.push(steps_plan);
    }
    let feature = gherkin::Feature {
        keyword: "Feature".into(),
        name: "macro errors".into(),
        description: None,
        background: None,
        scenarios,
        rules: vec![],
        tags: vec![],
        span: gherkin::Span::default(),
        position: gherkin::LineCol { line: 1, col: 1 },
        path: None,
    };
    let conc = [Some(1), Some(2), None][t.pick(3)];
    let r = runner::Basic::<ZW>::default().steps(ZW::collection()).max_concurrent_scenarios(conc);
    let r = if conc.is_some_and(|c| c % 2 == 0) { r.clone() } else { r };
    let items: Vec<cucumber::parser::Result<gherkin::Feature>> = vec![Ok(feature)];
    let res = std::panic::catch_unwind(std::panic::AssertUnwindSafe(|| block_on(r.run(futures::stream::iter(items), runner::basic::Cli::default()).collect::<Vec<_>>())));
    crate::lab::driver::install_probe_hook();
    let sample = json!({"macro_error_plan": plan.iter().map(|p| p.iter().map(|(k, e)| format!("{}:{}", FALLIBLE[*k].1.trim_end_matches(" err"), if *e { "err" } else { "ok" })).collect::<Vec<_>>()).collect::<Vec<_>>()});
    let events = match res {
        Ok(e) => e,
        Err(p) => {
            let m = p.downcast_ref::<String>().cloned().or_else(|| p.downcast_ref::<&str>().map(|s| (*s).to_string())).unwrap_or_default();
            return (vec![vio("escaped", format!("an error returned by a macro-defined step escaped the run as a panic: {m}"))], sample);
        }
    };
    // observed per scenario: list of (text, outcome)
    let mut seen: std::collections::BTreeMap<String, Vec<(String, String)>> = std::collections::BTreeMap::new();
    let mut finished: std::collections::BTreeMap<String, usize> = std::collections::BTreeMap::new();
    let mut run_finished = 0;
    for e in &events {
        let Ok(ev) = e else { continue };
        match &ev.value {
            event::Cucumber::Finished => run_finished += 1,
            event::Cucumber::Feature(_, event::Feature::Scenario(sc, rs)) => match &rs.event {
                event::Scenario::Step(st, se) => {
                    let o = match se {
                        event::Step::Started => continue,
                        event::Step::Passed(..) => "passed".to_string(),
                        event::Step::Skipped => "skipped".to_string(),
                        event::Step::Failed(_, _, _, event::StepError::Panic(info)) => {
                            format!("failed:{}", info.downcast_ref::<String>().cloned().or_else(|| info.downcast_ref::<&str>().map(|s| (*s).to_string())).unwrap_or_else(|| "<payload is neither String nor &str>".into()))
                        }
                        event::Step::Failed(_, _, _, other) => format!("failed-other:{other}"),
                    };
                    seen.entry(sc.name.clone()).or_default().push((st.value.clone(), o));
                }
                event::Scenario::Finished => *finished.entry(sc.name.clone()).or_default() += 1,
                _ => {}
            },
            _ => {}
        }
    }
    let mut viol = vec![];
    // the run verdict over these events: failed iff some macro-defined step returned Err
    {
        use cucumber::{Writer as _, WriterExt as _, writer::Stats as _};
        #[derive(Clone, Default)]
        struct Sink;
        impl cucumber::Writer<ZW> for Sink {
            type Cli = cucumber::cli::Empty;
            async fn handle_event(&mut self, _: cucumber::parser::Result<cucumber::Event<event::Cucumber<ZW>>>, _: &Self::Cli) {}
        }
        impl cucumber::writer::Arbitrary<ZW, String> for Sink {
            async fn write(&mut self, _: String) {}
        }
        impl cucumber::writer::NonTransforming for Sink {}
        let mut sum = Sink.summarized();
        for e in &events {
            block_on(sum.handle_event(e.clone(), &cucumber::cli::Empty));
        }
        let planned = plan.iter().any(|p| p.iter().any(|(_, errs)| *errs));
        if sum.execution_has_failed() != planned {
            viol.push(vio("verdict", format!("macro-defined steps returning Err: plan {planned} (some step returns Err), execution_has_failed() = {}; failed_steps() = {}", sum.execution_has_failed(), sum.failed_steps())));
        }
    }
    if run_finished != 1 || !matches!(events.last(), Some(Ok(ev)) if matches!(ev.value, event::Cucumber::Finished)) {
        viol.push(vio("run-finished", format!("{run_finished} run-Finished events, last event is Finished: {}", matches!(events.last(), Some(Ok(ev)) if matches!(ev.value, event::Cucumber::Finished)))));
    }
    for (si, p) in plan.iter().enumerate() {
        let name = format!("M{si}");
        let mut exp: Vec<(String, String)> = vec![];
        for (k, errs) in p {
            let (_, bad, good, msg) = FALLIBLE[*k];
            if *errs {
                exp.push((bad.to_string(), format!("failed:{msg}")));
                break;
            }
            exp.push((good.to_string(), "passed".to_string()));
        }
        let got = seen.get(&name).cloned().unwrap_or_default();
        if got != exp {
            viol.push(vio("step-results", format!("scenario {name}: step results {got:?}, a step returning Err must be Failed with the error's text and stop the scenario: expected {exp:?}")));
        }
        if finished.get(&name).copied().unwrap_or(0) != 1 {
            viol.push(vio("scenario-finished", format!("scenario {name} got {} Finished events", finished.get(&name).copied().unwrap_or(0))));
        }
    }
    (viol, sample)
}
