//! RunnerLab case: feature set x outcome plan x runner configuration, decoded from tape `a`.

use std::{
    collections::{BTreeMap, HashMap},
    time::Duration,
};

use cucumber::gherkin::{self, tagexpr::TagOperation};
use serde_json::{Value, json};

use super::{Oc, PlanEntry, WnOc};
use crate::{
    refmodel::{RetryCfg, resolve_retry},
    tape::Tape,
};

#[derive(Clone, Debug)]
pub struct Profile {
    pub max_features: usize,
    pub max_scenarios: usize,
    pub max_rules: usize,
    pub max_rule_scenarios: usize,
    pub max_steps: usize,
    pub max_bg: usize,
    /// probability (x/100) knobs
    pub p_before: u32,
    pub p_after: u32,
    pub p_serial_tag: u32,
    pub p_custom_classifier: u32,
    pub p_retry_closure: u32, // per scenario, closure mode
    pub p_retry_tags_mode: u32,
    pub p_delay: u32,
    pub p_fail_fast: u32,
    pub p_lazy_parser: u32,
    pub p_parser_error: u32,
    pub p_fail_step: u32,
    pub p_fail_hook: u32,
    pub p_fail_world: u32,
    pub p_amb: u32,
    pub p_none: u32,
    pub p_allow_skipped: u32,
    pub p_empty_feature: u32,
    pub max_gates: usize,
    pub max_parser_gates: usize,
    /// weights for [1, 2, 3, 4, 64, None]
    pub conc_weights: [u32; 6],
    pub p_cli_conc: u32,
    /// Never place a hook failure in a non-final attempt (known finding D2), etc.
    pub exclude_nonfinal_hook_failure: bool,
    pub exclude_lazy_parser: bool,
    pub exclude_serial_late: bool,
    /// Probability (x/100) of the "serial retry storm" shape: every serial scenario fails its first
    /// attempt and is retried after a delay, concurrent scenarios are held at gates.
    pub p_focus_serial_retry: u32,
    /// Probability (x/1000) of the "wide" shape: one feature with 66..73 one-step scenarios held
    /// at gates, default / Some(64) limit: the only shape in which the default limit of 64 binds.
    pub p_wide: u32,
}

impl Default for Profile {
    fn default() -> Self {
        Self {
            max_features: 3,
            max_scenarios: 3,
            max_rules: 2,
            max_rule_scenarios: 2,
            max_steps: 4,
            max_bg: 2,
            p_before: 40,
            p_after: 40,
            p_serial_tag: 12,
            p_custom_classifier: 15,
            p_retry_closure: 40,
            p_retry_tags_mode: 25,
            p_delay: 20,
            p_fail_fast: 15,
            p_lazy_parser: 35,
            p_parser_error: 8,
            p_fail_step: 18,
            p_fail_hook: 8,
            p_fail_world: 5,
            p_amb: 8,
            p_none: 10,
            p_allow_skipped: 10,
            p_empty_feature: 10,
            max_gates: 2,
            max_parser_gates: 2,
            conc_weights: [3, 3, 2, 1, 3, 2],
            p_cli_conc: 20,
            exclude_nonfinal_hook_failure: false,
            exclude_lazy_parser: false,
            exclude_serial_late: false,
            p_focus_serial_retry: 0,
            p_wide: 0,
        }
    }
}

#[derive(Clone, Debug)]
pub enum Item {
    Feature(gherkin::Feature),
    /// Parser error; `String` = placeholder name used to recognise it in the stream.
    Error(String),
}

#[derive(Clone, Debug)]
pub struct ParserItem {
    pub gates: usize,
    pub item: Item,
}

#[derive(Clone, Debug)]
pub struct StepInfo {
    pub bg: bool,
    pub text: String,
    /// "ok" | "amb" | "none"
    pub class: &'static str,
}

#[derive(Clone, Debug)]
pub struct ScInfo {
    pub name: String,
    pub feature: String,
    pub feature_idx: usize,
    pub rule: Option<String>,
    pub line: usize,
    pub steps: Vec<StepInfo>,
    pub serial: bool,
    /// Expected retry options (budget, delay).
    pub retry: Option<(usize, Option<Duration>)>,
    pub allow_skipped: bool,
}

#[derive(Clone, Debug)]
pub struct RCase {
    pub items: Vec<ParserItem>,
    pub end_gates: usize,
    pub lazy: bool,
    pub before: bool,
    pub after: bool,
    pub conc_builder: Option<usize>,
    /// `false`: `max_concurrent_scenarios` is not called at all (default 64 applies).
    pub conc_builder_set: bool,
    pub conc_cli: Option<usize>,
    pub fail_fast_builder: bool,
    pub fail_fast_cli: bool,
    /// Closure mode: explicit budgets per scenario name. `None` = tag mode (default resolver).
    pub retry_closure: Option<HashMap<String, (usize, Option<Duration>)>>,
    pub retry_builder: RetryCfg,
    pub retry_cli: RetryCfg,
    pub custom_classifier: bool,
    pub plan: HashMap<String, Vec<PlanEntry>>,
    pub wn_plan: Vec<(WnOc, u8)>,
    pub scenarios: Vec<ScInfo>,
    pub excluded: u64,
}

impl RCase {
    pub fn effective_conc(&self) -> Option<usize> {
        self.conc_cli.or(if self.conc_builder_set { self.conc_builder } else { Some(64) })
    }
    pub fn fail_fast(&self) -> bool {
        self.fail_fast_builder || self.fail_fast_cli
    }
    pub fn sc(&self, name: &str) -> Option<&ScInfo> {
        self.scenarios.iter().find(|s| s.name == name)
    }
    pub fn features(&self) -> impl Iterator<Item = &gherkin::Feature> {
        self.items.iter().filter_map(|i| match &i.item {
            Item::Feature(f) => Some(f),
            Item::Error(_) => None,
        })
    }
    pub fn has_delay(&self) -> bool {
        self.scenarios.iter().any(|s| s.retry.is_some_and(|r| r.1.is_some()))
    }
    pub fn max_delay(&self) -> Duration {
        self.scenarios.iter().filter_map(|s| s.retry.and_then(|r| r.1)).max().unwrap_or_default()
    }

    pub fn describe(&self) -> Value {
        let feats: Vec<Value> = self
            .items
            .iter()
            .map(|i| match &i.item {
                Item::Error(n) => json!({"parser_error": n, "gates": i.gates}),
                Item::Feature(f) => json!({
                    "feature": f.name, "gates": i.gates, "tags": f.tags, "path": f.path.as_ref().map(|p| p.display().to_string()),
                    "background": f.background.as_ref().map(|b| b.steps.iter().map(|s| s.value.clone()).collect::<Vec<_>>()),
                    "scenarios": f.scenarios.iter().map(|s| json!({"name": s.name, "tags": s.tags, "steps": s.steps.iter().map(|x| format!("{}{}", x.keyword, x.value)).collect::<Vec<_>>()})).collect::<Vec<_>>(),
                    "rules": f.rules.iter().map(|r| json!({
                        "name": r.name, "tags": r.tags,
                        "background": r.background.as_ref().map(|b| b.steps.iter().map(|s| s.value.clone()).collect::<Vec<_>>()),
                        "scenarios": r.scenarios.iter().map(|s| json!({"name": s.name, "tags": s.tags, "steps": s.steps.iter().map(|x| format!("{}{}", x.keyword, x.value)).collect::<Vec<_>>()})).collect::<Vec<_>>(),
                    })).collect::<Vec<_>>(),
                }),
            })
            .collect();
        let mut plan: BTreeMap<String, String> = BTreeMap::new();
        for (k, v) in &self.plan {
            let s: Vec<String> = v
                .iter()
                .map(|e| format!("{}{}", match e.oc { Oc::Pass => "P", Oc::PanicString => "!S", Oc::PanicStr => "!s", Oc::PanicCustom => "!C", Oc::PanicI32 => "!i", Oc::PanicEager => "!E" }, if e.gates > 0 { format!("g{}", e.gates) } else { String::new() }))
                .collect();
            if v.iter().any(|e| !e.oc.is_pass() || e.gates > 0) {
                plan.insert(k.clone(), s.join(","));
            }
        }
        let fmt_cfg = |c: &RetryCfg| json!({"retry": c.retry, "after_ms": c.after.map(|d| d.as_millis() as u64), "filter": c.filter.as_ref().map(crate::refmodel::render_tagexpr)});
        json!({
            "items": feats, "lazy_parser": self.lazy, "end_gates": self.end_gates,
            "before_hook": self.before, "after_hook": self.after,
            "concurrency": {"builder": if self.conc_builder_set { json!(self.conc_builder) } else { json!("default") }, "cli": self.conc_cli},
            "fail_fast": {"builder": self.fail_fast_builder, "cli": self.fail_fast_cli},
            "retry": {
                "mode": if self.retry_closure.is_some() { "closure" } else { "tags" },
                "builder": fmt_cfg(&self.retry_builder), "cli": fmt_cfg(&self.retry_cli),
                "expected": self.scenarios.iter().filter_map(|s| s.retry.map(|r| (s.name.clone(), json!([r.0, r.1.map(|d| d.as_millis() as u64)])))).collect::<BTreeMap<_, _>>(),
            },
            "serial": self.scenarios.iter().filter(|s| s.serial).map(|s| s.name.clone()).collect::<Vec<_>>(),
            "custom_classifier": self.custom_classifier,
            "plan": plan,
            "world_new_plan": self.wn_plan.iter().map(|(o, g)| format!("{}{}", match o { WnOc::Ok => "ok", WnOc::Err => "err", WnOc::Panic => "panic", WnOc::PanicEager => "panic-eager" }, if *g > 0 { format!("g{g}") } else { String::new() })).collect::<Vec<_>>().join(","),
        })
    }
}

pub fn mkstep(text: String, line: usize, ty: usize) -> gherkin::Step {
    let (k, t) = [("Given ", gherkin::StepType::Given), ("When ", gherkin::StepType::When), ("Then ", gherkin::StepType::Then)][ty % 3];
    gherkin::Step {
        keyword: k.into(),
        ty: t,
        value: text,
        docstring: None,
        table: None,
        span: gherkin::Span::default(),
        position: gherkin::LineCol { line, col: 5 },
    }
}

/// A step of class `c`; an `ok` step with the `Then` keyword uses the prefix `thn`, whose only
/// definition is registered for `Then` (definitions are keyword-scoped: nothing but a `Then` lookup
/// may find it).
fn mkstep_kw(c: &str, rest: String, line: usize, ty: usize) -> gherkin::Step {
    let prefix = if c == "ok" && ty % 3 == 2 { "thn" } else { c };
    mkstep(format!("{prefix} {rest}"), line, ty)
}

pub fn mkbackground(steps: Vec<gherkin::Step>, line: usize) -> gherkin::Background {
    gherkin::Background {
        keyword: "Background".into(),
        name: String::new(),
        description: None,
        steps,
        span: gherkin::Span::default(),
        position: gherkin::LineCol { line, col: 3 },
    }
}

pub fn mkscenario(name: String, steps: Vec<gherkin::Step>, tags: Vec<String>, line: usize) -> gherkin::Scenario {
    gherkin::Scenario {
        keyword: "Scenario".into(),
        name,
        description: None,
        steps,
        examples: vec![],
        tags,
        span: gherkin::Span::default(),
        position: gherkin::LineCol { line, col: 3 },
    }
}

fn pct(t: &mut Tape, p: u32) -> bool {
    p > 0 && t.rare(p, 100)
}

fn gen_plan_entries(t: &mut Tape, p_fail: u32, max_gates: usize, n: usize) -> Vec<PlanEntry> {
    (0..n)
        .map(|_| {
            let oc = if pct(t, p_fail) { [Oc::PanicString, Oc::PanicStr, Oc::PanicCustom, Oc::PanicI32, Oc::PanicEager][t.pick(5)] } else { Oc::Pass };
            let gates = t.pick(max_gates + 1) as u8;
            PlanEntry { oc, gates }
        })
        .collect()
}

fn retry_tag(t: &mut Tape, with_delay: bool) -> String {
    // an explicit budget of zero is a budget too (`@retry(0)` opts a scenario out of `--retry N`)
    let n = if t.chance(1, 6) { 0 } else { t.range(1, 3) };
    let d = t.range(1, 4);
    match (if n == 0 { 1 } else { t.pick(2) }, with_delay) {
        (0, false) => "retry".to_string(),
        (_, false) => format!("retry({n})"),
        (0, true) => format!("retry.after({d}ms)"),
        (_, true) => format!("retry({n}).after({d}ms)"),
    }
}

fn gen_wide_case(t: &mut Tape) -> RCase {
    let nsc = 66 + t.pick(8);
    let mut plan: HashMap<String, Vec<PlanEntry>> = HashMap::new();
    let mut scs = vec![];
    let mut scenarios = vec![];
    for i in 0..nsc {
        let name = format!("F0.S{i}");
        let line = 2 + 3 * i;
        let st = mkstep(format!("ok {name}.0"), line + 1, 0);
        plan.insert(format!("step:{}", st.value), vec![PlanEntry { oc: Oc::Pass, gates: 1 }; 2]);
        scenarios.push(ScInfo { name: name.clone(), feature: "F0".into(), feature_idx: 0, rule: None, line, steps: vec![step_info(false, &st)], serial: false, retry: None, allow_skipped: false });
        scs.push(mkscenario(name, vec![st], vec![], line));
    }
    let feature = gherkin::Feature {
        keyword: "Feature".into(),
        name: "F0".into(),
        description: None,
        background: None,
        scenarios: scs,
        rules: vec![],
        tags: vec![],
        span: gherkin::Span::default(),
        position: gherkin::LineCol { line: 1, col: 1 },
        path: Some("/vt/wide.feature".into()),
    };
    RCase {
        items: vec![ParserItem { gates: 0, item: Item::Feature(feature) }],
        end_gates: 0,
        lazy: false,
        before: false,
        after: false,
        conc_builder: Some(64),
        conc_builder_set: t.chance(1, 2),
        conc_cli: None,
        fail_fast_builder: false,
        fail_fast_cli: false,
        retry_closure: Some(HashMap::new()),
        retry_builder: RetryCfg::default(),
        retry_cli: RetryCfg::default(),
        custom_classifier: false,
        plan,
        wn_plan: vec![(WnOc::Ok, 0); 80],
        scenarios,
        excluded: 0,
    }
}

pub fn gen_case(t: &mut Tape, p: &Profile) -> RCase {
    if p.p_wide > 0 && t.rare(p.p_wide, 1000) {
        return gen_wide_case(t);
    }
    let mut excluded = 0u64;
    let focus = pct(t, p.p_focus_serial_retry);
    let before = pct(t, p.p_before);
    let after = pct(t, p.p_after) || focus;
    let tags_mode = pct(t, p.p_retry_tags_mode) && !focus;
    let custom_classifier = pct(t, p.p_custom_classifier) && !focus;
    let mut lazy = pct(t, p.p_lazy_parser);
    if lazy && p.exclude_lazy_parser {
        lazy = false;
        excluded += 1;
    }
    let mut plan: HashMap<String, Vec<PlanEntry>> = HashMap::new();
    let mut closure: HashMap<String, (usize, Option<Duration>)> = HashMap::new();
    let mut custom_serial: Vec<String> = vec![];

    let class = |t: &mut Tape| -> &'static str {
        if pct(t, p.p_amb) {
            // two overlapping regexes, or one regex registered twice at different locations
            if t.chance(1, 2) { "amb" } else { "dup" }
        } else if pct(t, p.p_none) {
            "none"
        } else {
            "ok"
        }
    };

    let nf = t.range(1, p.max_features);
    let mut items: Vec<ParserItem> = vec![];
    for fi in 0..nf {
        if pct(t, p.p_parser_error) {
            let g = if lazy { t.pick(p.max_parser_gates + 1) } else { 0 };
            items.push(ParserItem { gates: g, item: Item::Error(format!("perr{fi}")) });
        }
        let fname = format!("F{fi}");
        let mut line = 1usize;
        let mut ftags: Vec<String> = vec![];
        if pct(t, p.p_serial_tag / 2) {
            ftags.push("serial".into());
        }
        if pct(t, p.p_allow_skipped / 2) {
            ftags.push("allow.skipped".into());
        }
        if tags_mode && pct(t, 15) {
            let d = pct(t, p.p_delay);
            ftags.push(retry_tag(t, d));
        }
        if pct(t, 20) {
            ftags.push(format!("t{}", t.pick(3)));
        }
        let empty = pct(t, p.p_empty_feature);
        line += 1;
        let nbg = if empty { 0 } else { t.pick(p.max_bg + 1) };
        let bg_line = line;
        let bgsteps: Vec<gherkin::Step> = (0..nbg)
            .map(|i| {
                let c = class(t);
                mkstep_kw(c, format!("{fname}.bg{i}"), bg_line + 1 + i, t.pick(3))
            })
            .collect();
        for s in &bgsteps {
            plan.insert(format!("step:{}", s.value), gen_plan_entries(t, p.p_fail_step / 2, p.max_gates, 6));
        }
        if nbg > 0 {
            line += nbg + 1;
        }

        let mut gen_sc = |t: &mut Tape, name: String, line: &mut usize, plan: &mut HashMap<String, Vec<PlanEntry>>| -> gherkin::Scenario {
            let ns = t.pick(p.max_steps + 1);
            let mut tags: Vec<String> = vec![];
            if pct(t, p.p_serial_tag) {
                tags.push("serial".into());
            }
            if pct(t, p.p_allow_skipped) {
                tags.push("allow.skipped".into());
            }
            if pct(t, 15) {
                tags.push(format!("t{}", t.pick(3)));
            }
            if custom_classifier && pct(t, 25) {
                custom_serial.push(name.clone());
            }
            let sl = *line;
            let steps: Vec<gherkin::Step> = (0..ns)
                .map(|i| {
                    let c = class(t);
                    let ty = t.pick(3);
                    // An undefined `Given` / `When` step may carry the very text of a sibling
                    // scenario's `Then` step (defined for `Then` only): undefined under one keyword,
                    // defined under another - whichever of the two is looked up first.
                    if c == "none" && ty % 3 != 2 && t.chance(1, 2) {
                        if let Some((base, idx)) = name.rsplit_once(".S").and_then(|(b, n)| n.parse::<usize>().ok().map(|n| (b, n))) {
                            let other = if idx > 0 && t.chance(1, 2) { idx - 1 } else { idx + 1 };
                            return mkstep(format!("thn {base}.S{other}.{}", t.pick(3)), sl + 1 + i, ty);
                        }
                    }
                    mkstep_kw(c, format!("{name}.{i}"), sl + 1 + i, ty)
                })
                .collect();
            for s in &steps {
                plan.insert(format!("step:{}", s.value), gen_plan_entries(t, p.p_fail_step, p.max_gates, 4));
            }
            plan.insert(format!("before:{name}"), gen_plan_entries(t, p.p_fail_hook, p.max_gates, 4));
            plan.insert(format!("after:{name}"), gen_plan_entries(t, p.p_fail_hook, p.max_gates, 4));
            if tags_mode {
                if pct(t, 30) {
                    let d = pct(t, p.p_delay);
                    tags.push(retry_tag(t, d));
                }
            } else if pct(t, p.p_retry_closure) {
                let n = t.range(1, 3);
                let d = pct(t, p.p_delay).then(|| Duration::from_millis(t.range(1, 4) as u64));
                closure.insert(name.clone(), (n, d));
            }
            *line += ns + 2;
            mkscenario(name, steps, tags, sl)
        };

        let nsc = if empty { 0 } else { t.pick(p.max_scenarios + 1) };
        let mut scs = vec![];
        for si in 0..nsc {
            scs.push(gen_sc(t, format!("{fname}.S{si}"), &mut line, &mut plan));
        }
        let nr = t.pick(p.max_rules + 1);
        let mut rules = vec![];
        for ri in 0..nr {
            let rname = format!("{fname}.R{ri}");
            let rl = line;
            line += 1;
            let mut rtags: Vec<String> = vec![];
            if pct(t, p.p_serial_tag / 2) {
                rtags.push("serial".into());
            }
            if pct(t, p.p_allow_skipped / 2) {
                rtags.push("allow.skipped".into());
            }
            if tags_mode && pct(t, 15) {
                let d = pct(t, p.p_delay);
                rtags.push(retry_tag(t, d));
            }
            let rbg = if empty { 0 } else { t.pick(p.max_bg + 1) };
            let rbg_line = line;
            let rsteps: Vec<gherkin::Step> = (0..rbg)
                .map(|i| {
                    let c = class(t);
                    mkstep_kw(c, format!("{rname}.bg{i}"), rbg_line + 1 + i, t.pick(3))
                })
                .collect();
            for s in &rsteps {
                plan.insert(format!("step:{}", s.value), gen_plan_entries(t, p.p_fail_step / 2, p.max_gates, 6));
            }
            if rbg > 0 {
                line += rbg + 1;
            }
            let nrs = if empty { 0 } else { t.pick(p.max_rule_scenarios + 1) };
            let mut rs = vec![];
            for si in 0..nrs {
                rs.push(gen_sc(t, format!("{rname}.S{si}"), &mut line, &mut plan));
            }
            rules.push(gherkin::Rule {
                keyword: "Rule".into(),
                name: rname,
                description: None,
                background: (rbg > 0).then(|| {
                    let mut b = mkbackground(rsteps, rbg_line);
                    b.position.col = 5;
                    b
                }),
                scenarios: rs,
                tags: rtags,
                span: gherkin::Span::default(),
                position: gherkin::LineCol { line: rl, col: 3 },
            });
        }
        let feature = gherkin::Feature {
            keyword: "Feature".into(),
            name: fname.clone(),
            description: None,
            background: (nbg > 0).then(|| mkbackground(bgsteps, bg_line)),
            scenarios: scs,
            rules,
            tags: ftags,
            span: gherkin::Span::default(),
            position: gherkin::LineCol { line: 1, col: 1 },
            path: t.chance(3, 4).then(|| format!("/vt/f{fi}.feature").into()),
        };
        let g = if lazy { t.pick(p.max_parser_gates + 1) } else { 0 };
        items.push(ParserItem { gates: g, item: Item::Feature(feature) });
    }
    if pct(t, p.p_parser_error / 2) {
        let g = if lazy { t.pick(p.max_parser_gates + 1) } else { 0 };
        items.push(ParserItem { gates: g, item: Item::Error("perr_last".into()) });
    }
    let end_gates = if lazy { t.pick(2) } else { 0 };

    // configuration
    let conc_choice = t.weighted(&p.conc_weights);
    let conc_builder_set = conc_choice != 4 || t.chance(1, 2);
    let conc_builder = [Some(1), Some(2), Some(3), Some(4), Some(64), None][conc_choice];
    let conc_cli = pct(t, p.p_cli_conc).then(|| t.range(1, 4));
    let ff = pct(t, p.p_fail_fast);
    let (fail_fast_builder, fail_fast_cli) = if ff { [(true, false), (false, true), (true, true)][t.pick(3)] } else { (false, false) };

    let mut retry_builder = RetryCfg::default();
    let mut retry_cli = RetryCfg::default();
    if tags_mode {
        for cfg in [&mut retry_builder, &mut retry_cli] {
            if pct(t, 25) {
                cfg.retry = Some(t.range(0, 2));
            }
            if pct(t, 15) {
                cfg.after = Some(Duration::from_millis(t.range(1, 3) as u64));
            }
            if pct(t, 20) {
                let a = TagOperation::Tag(format!("t{}", t.pick(3)));
                cfg.filter = Some(match t.pick(3) {
                    0 => a,
                    1 => TagOperation::Not(Box::new(a)),
                    _ => TagOperation::Or(Box::new(a), Box::new(TagOperation::Tag("serial".into()))),
                });
            }
        }
    }

    let wn_plan: Vec<(WnOc, u8)> = (0..40)
        .map(|_| {
            let oc = if pct(t, p.p_fail_world) { [WnOc::Err, WnOc::Panic, WnOc::PanicEager][t.pick(3)] } else { WnOc::Ok };
            (oc, if pct(t, 15) { 1 } else { 0 })
        })
        .collect();

    // scenario index + expected retry / serial classification
    let eff = RetryCfg {
        retry: retry_cli.retry.or(retry_builder.retry),
        after: retry_cli.after.or(retry_builder.after),
        filter: retry_cli.filter.clone().or_else(|| retry_builder.filter.clone()),
    };
    let mut scenarios: Vec<ScInfo> = vec![];
    let mut fidx = 0usize;
    for it in &items {
        let Item::Feature(f) = &it.item else { continue };
        let fbg: Vec<StepInfo> = f.background.iter().flat_map(|b| b.steps.iter()).map(|s| step_info(true, s)).collect();
        let has = |tags: &[String], x: &str| tags.iter().any(|t| t == x);
        let mut add = |r: Option<&gherkin::Rule>, s: &gherkin::Scenario| {
            let rbg: Vec<StepInfo> = r.iter().flat_map(|r| r.background.iter()).flat_map(|b| b.steps.iter()).map(|s| step_info(true, s)).collect();
            let steps: Vec<StepInfo> = fbg.iter().cloned().chain(rbg).chain(s.steps.iter().map(|x| step_info(false, x))).collect();
            let rtags: Option<&[String]> = r.map(|r| r.tags.as_slice());
            let tag_serial = has(&s.tags, "serial") || rtags.is_some_and(|t| has(t, "serial")) || has(&f.tags, "serial");
            let serial = if custom_classifier { custom_serial.contains(&s.name) } else { tag_serial };
            let retry = if tags_mode { resolve_retry(&f.tags, rtags, &s.tags, &eff) } else { closure.get(&s.name).copied() };
            let allow_skipped = has(&s.tags, "allow.skipped") || rtags.is_some_and(|t| has(t, "allow.skipped")) || has(&f.tags, "allow.skipped");
            scenarios.push(ScInfo {
                name: s.name.clone(),
                feature: f.name.clone(),
                feature_idx: fidx,
                rule: r.map(|r| r.name.clone()),
                line: s.position.line,
                steps,
                serial,
                retry,
                allow_skipped,
            });
        };
        for s in &f.scenarios {
            add(None, s);
        }
        for r in &f.rules {
            for s in &r.scenarios {
                add(Some(r), s);
            }
        }
        fidx += 1;
    }

    // Known-finding exclusion: no hook failure in an attempt that may be retried.
    if p.exclude_nonfinal_hook_failure {
        for sc in &scenarios {
            if sc.retry.is_some_and(|r| r.0 > 0) {
                for key in [format!("before:{}", sc.name), format!("after:{}", sc.name)] {
                    if let Some(v) = plan.get_mut(&key) {
                        for e in v.iter_mut() {
                            if !e.oc.is_pass() {
                                e.oc = Oc::Pass;
                                excluded += 1;
                            }
                        }
                    }
                }
            }
        }
    }

    if focus {
        let increasing = t.chance(1, 2);
        let mut serial_idx = 0usize;
        for sc in &mut scenarios {
            let key = format!("after:{}", sc.name);
            let v = plan.entry(key).or_default();
            while v.len() < 4 {
                v.push(PlanEntry { oc: Oc::Pass, gates: 0 });
            }
            if sc.serial {
                // serial scenarios run in order: with increasing delays the retry queued last (the
                // head of the queue) has the latest deadline
                let d = if increasing { Duration::from_millis((1 + 2 * serial_idx).min(5) as u64) } else { Duration::from_millis(t.range(1, 4) as u64) };
                serial_idx += 1;
                let n = t.range(1, 2);
                closure.insert(sc.name.clone(), (n, Some(d)));
                sc.retry = Some((n, Some(d)));
                v[0].oc = Oc::PanicString;
            } else {
                v[0].gates = t.range(1, 2) as u8;
            }
        }
    }
    let conc_builder = if focus && conc_builder == Some(1) { Some(3) } else { conc_builder };

    RCase {
        items,
        end_gates,
        lazy,
        before,
        after,
        conc_builder,
        conc_builder_set,
        conc_cli,
        fail_fast_builder,
        fail_fast_cli,
        retry_closure: (!tags_mode).then_some(closure),
        retry_builder,
        retry_cli,
        custom_classifier,
        plan,
        wn_plan,
        scenarios,
        excluded,
    }
}

fn step_info(bg: bool, s: &gherkin::Step) -> StepInfo {
    let class = match s.value.split(' ').next() {
        Some("amb" | "dup") => "amb",
        // (`thn` texts are defined for the `Then` keyword only)
        Some("thn") if s.ty != gherkin::StepType::Then => "none",
        Some("thn") => "ok",
        Some("none") => "none",
        _ => "ok",
    };
    StepInfo { bg, text: s.value.clone(), class }
}
