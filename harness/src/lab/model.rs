//! Reference model of one scenario attempt (DESIGN.md §5.1), as an automaton that walks the
//! observed events of an attempt and knows the admissible next events.

use std::collections::{BTreeMap, HashMap};

use super::{
    Oc, Phase, Reason, Tok, WnOc,
    case::{RCase, ScInfo},
    driver::{AMB_LOC_2, ErrKind, EvKind, OK_LOC, RE_AMB, RE_OK, REv, RunLog, ScEv},
    token_for, wn_token,
};
use crate::engine::Violation;

#[derive(Clone, Debug, Default)]
pub struct Attempt {
    pub scenario: String,
    pub retries: Option<(usize, usize)>,
    /// Indices into `log.events`, in stream order, `Log` events included.
    pub ev: Vec<usize>,
    pub started: Option<usize>,
    pub finished: Option<usize>,
    // ---- facts established by the automaton
    pub conforms: bool,
    pub failed: bool,
    pub skipped: bool,
    pub step_failed: bool,
    pub before_failed: bool,
    pub after_failed: bool,
    pub world_init_failed: bool,
    /// The model says a World exists at the end of the attempt.
    pub world_expected: bool,
    /// World ids seen in the attempt's failure events.
    pub world_ids_in_events: Vec<u64>,
    /// User callbacks the model says ran, in order: (key, exact invocation index if attributable).
    pub callbacks: Vec<(String, Option<usize>)>,
    /// `World::new` is expected to have been called in this attempt.
    pub world_new_called: bool,
    pub reason: Option<Reason>,
    pub executed_steps: usize,
    pub has_bg: bool,
    pub nonpass: bool,
}

impl Attempt {
    pub fn is_final(&self) -> bool {
        self.retries.is_none_or(|r| r.1 == 0)
    }
}

pub struct Modelled {
    pub attempts: Vec<Attempt>,
    pub violations: Vec<Violation>,
}

fn wn_tokens(case: &RCase, for_hook: bool) -> Vec<Tok> {
    case.wn_plan
        .iter()
        .enumerate()
        .filter_map(|(n, (oc, _))| match oc {
            WnOc::Ok => None,
            WnOc::Err => Some(Tok::Str(if for_hook { format!("failed to initialize World: wn-err#{n}") } else { format!("failed to initialize `World`: wn-err#{n}") })),
            WnOc::Panic | WnOc::PanicEager => wn_token(*oc, n),
        })
        .collect()
}

/// Groups scenario events by `(scenario, retries)` in order of first appearance.
pub fn group_attempts(events: &[REv]) -> Vec<Attempt> {
    let mut order: Vec<Attempt> = vec![];
    let mut index: HashMap<(String, Option<(usize, usize)>), usize> = HashMap::new();
    for e in events {
        if let EvKind::Sc { s, retries, ev, .. } = &e.k {
            let key = (s.clone(), *retries);
            let i = *index.entry(key).or_insert_with(|| {
                order.push(Attempt { scenario: s.clone(), retries: *retries, ..Attempt::default() });
                order.len() - 1
            });
            let a = &mut order[i];
            a.ev.push(e.idx);
            match ev {
                ScEv::Started if a.started.is_none() => a.started = Some(e.idx),
                ScEv::Finished if a.finished.is_none() => a.finished = Some(e.idx),
                _ => {}
            }
        }
    }
    order
}

pub fn model_run(case: &RCase, log: &RunLog) -> Modelled {
    let mut attempts = group_attempts(&log.events);
    let mut violations = vec![];
    let mut sim_inv: HashMap<String, usize> = HashMap::new();
    let wn_hook = wn_tokens(case, true);
    let wn_step = wn_tokens(case, false);

    for a in &mut attempts {
        let Some(sc) = case.sc(&a.scenario) else {
            violations.push(Violation::new("C02/unknown-scenario", format!("events for a scenario that was never supplied: {}", a.scenario)));
            continue;
        };
        // "... then Finished, with no event of that attempt after it" - `Log` events included (they
        // are otherwise transparent to the automaton).
        if let Some(p) = a.ev.iter().position(|i| matches!(log.events[*i].sc(), Some((_, _, ScEv::Finished)))) {
            if let Some(&late) = a.ev.get(p + 1) {
                // One case is a recorded finding (D11) rather than a new violation: a log from
                // outside every scenario's context is handed to every scenario the collector still
                // knows, and an attempt that has just emitted its Finished stays known until the main
                // loop reads its completion. It is *that* window only if the late event is such a log
                // and nothing shows that the completion had been read before: no attempt dispatched
                // after the main loop observed it (H2 batch >= H3 next_batch) has started earlier.
                let unattributed = matches!(log.events[late].sc(), Some((_, _, ScEv::Log(m))) if m.contains("UNATTR|"));
                let disp = |s: &str, r: Option<(usize, usize)>| log.dispatched.iter().find(|d| d.scenario == s && d.retries.map(|x| (x.current, x.left)) == r);
                let observed = disp(&a.scenario, a.retries).and_then(|d| log.observed.iter().find(|o| o.id == d.id));
                let read_before = observed.is_none_or(|o| {
                    log.events[..late].iter().any(|e| matches!(e.sc(), Some((s, r, ScEv::Started)) if disp(s, r).is_some_and(|d| d.batch >= o.next_batch)))
                });
                let clause = if unattributed && !read_before { "event-after-finished/unattributed-log-in-completion-window" } else { "event-after-finished" };
                violations.push(Violation::new(
                    format!("C02/{clause}"),
                    format!("attempt {} retries={:?}: event #{late} `{}` of the attempt follows its Finished (#{})", a.scenario, a.retries, short(&log.events[late]), a.ev[p]),
                ));
                continue;
            }
        }
        match walk(case, sc, a, &log.events, &mut sim_inv, &wn_hook, &wn_step) {
            Ok(()) => a.conforms = true,
            Err((clause, msg)) => {
                let observed: Vec<String> = a.ev.iter().map(|i| short(&log.events[*i])).collect();
                violations.push(Violation::new(
                    format!("C02/{clause}"),
                    format!("attempt {} retries={:?}: {msg}; observed sequence: {}", a.scenario, a.retries, observed.join(" | ")),
                ));
            }
        }
    }

    // ---- global accounting for the schedule-dependent callbacks (shared background steps, World::new):
    // every non-pass invocation in the callback log shows up in exactly one event and vice versa.
    let mut injected: BTreeMap<Tok, usize> = BTreeMap::new();
    for c in &log.calls {
        if c.phase != Phase::Exit {
            continue;
        }
        if c.key == "WorldNew" {
            match c.wn {
                WnOc::Ok => {}
                WnOc::Err => {
                    // reported with one of two prefixes depending on the call site
                    *injected.entry(Tok::Str(format!("wn-err#{}", c.inv))).or_default() += 1;
                }
                WnOc::Panic | WnOc::PanicEager => *injected.entry(Tok::Str(format!("wn-panic#{}", c.inv))).or_default() += 1,
            }
        } else if let Some(t) = token_for(c.oc, &c.key, c.inv) {
            *injected.entry(t).or_default() += 1;
        }
    }
    let mut reported: BTreeMap<Tok, usize> = BTreeMap::new();
    for e in &log.events {
        if let Some((_, _, ev)) = e.sc() {
            let tok = match ev {
                ScEv::HookFailed { tok, .. } => Some(tok.clone()),
                ScEv::StepFailed { err: ErrKind::Panic(tok), .. } => Some(tok.clone()),
                _ => None,
            };
            if let Some(t) = tok {
                let t = match &t {
                    Tok::Str(s) => Tok::Str(
                        s.strip_prefix("failed to initialize World: ").or_else(|| s.strip_prefix("failed to initialize `World`: ")).unwrap_or(s).to_string(),
                    ),
                    _ => t,
                };
                *reported.entry(t).or_default() += 1;
            }
        }
    }
    if log.end == super::driver::RunEnd::Completed && injected != reported {
        let lost: Vec<_> = injected.iter().filter(|(t, n)| reported.get(*t).copied().unwrap_or(0) < **n).map(|(t, _)| format!("{t:?}")).collect();
        let extra: Vec<_> = reported.iter().filter(|(t, n)| injected.get(*t).copied().unwrap_or(0) < **n).map(|(t, _)| format!("{t:?}")).collect();
        violations.push(Violation::new(
            "C02/fault-accounting",
            format!("injected faults and reported failures differ: injected but not reported (or fewer times): {lost:?}; reported but never injected (or more often): {extra:?}"),
        ));
    }
    Modelled { attempts, violations }
}

pub fn short(e: &REv) -> String {
    match &e.k {
        EvKind::Sc { ev, .. } => match ev {
            ScEv::Started => "Started".into(),
            ScEv::Finished => "Finished".into(),
            ScEv::HookStarted { before } => format!("Hook{}Started", if *before { "Before" } else { "After" }),
            ScEv::HookPassed { before } => format!("Hook{}Passed", if *before { "Before" } else { "After" }),
            ScEv::HookFailed { before, tok, world } => format!("Hook{}Failed({tok:?},w={world:?})", if *before { "Before" } else { "After" }),
            ScEv::StepStarted { bg, text } => format!("{}Started[{text}]", if *bg { "Bg" } else { "Step" }),
            ScEv::StepPassed { bg, text, .. } => format!("{}Passed[{text}]", if *bg { "Bg" } else { "Step" }),
            ScEv::StepSkipped { bg, text } => format!("{}Skipped[{text}]", if *bg { "Bg" } else { "Step" }),
            ScEv::StepFailed { bg, text, err, world, .. } => format!("{}Failed[{text}]({err:?},w={world:?})", if *bg { "Bg" } else { "Step" }),
            ScEv::Log(m) => format!("Log({m})"),
        },
        k => format!("{k:?}"),
    }
}

type WalkErr = (&'static str, String);

fn walk(
    case: &RCase,
    sc: &ScInfo,
    a: &mut Attempt,
    events: &[REv],
    sim_inv: &mut HashMap<String, usize>,
    wn_hook: &[Tok],
    wn_step: &[Tok],
) -> Result<(), WalkErr> {
    // feature / rule path must be the scenario's own
    for i in &a.ev {
        let e = &events[*i];
        if e.f != sc.feature || e.r != sc.rule {
            return Err(("wrong-path", format!("event reported under feature `{}` rule {:?}, expected `{}` {:?}", e.f, e.r, sc.feature, sc.rule)));
        }
    }
    let seq: Vec<&ScEv> = a.ev.iter().filter_map(|i| events[*i].sc().map(|x| x.2)).filter(|e| !matches!(e, ScEv::Log(_))).collect();
    let mut it = seq.into_iter();
    let mut next = |what: &str| -> Result<&ScEv, WalkErr> { it.next().ok_or(("missing-event", format!("sequence ends, expected {what}"))) };
    let mut take_inv = |key: &str| -> (Oc, usize) {
        let c = sim_inv.entry(key.to_string()).or_default();
        let i = *c;
        *c += 1;
        (case.plan.get(key).and_then(|v| v.get(i)).map_or(Oc::Pass, |e| e.oc), i)
    };

    let e = next("Started")?;
    if *e != ScEv::Started {
        return Err(("first-not-started", format!("first event of the attempt is {e:?}")));
    }
    a.has_bg = sc.steps.iter().any(|s| s.bg);
    let mut world = false;
    let mut stop = false;
    a.reason = Some(Reason::StepPassed);

    if case.before {
        let e = next("before HookStarted")?;
        if *e != (ScEv::HookStarted { before: true }) {
            return Err(("before-hook-missing", format!("expected before-hook Started, got {e:?}")));
        }
        a.world_new_called = true;
        let e = next("before hook result")?;
        match e {
            ScEv::HookFailed { before: true, tok, world: w } if wn_hook.contains(tok) => {
                // World::new failed: the hook itself is not invoked.
                if w.is_some() {
                    return Err(("world-in-event", "World creation failed but the failure event carries a World".into()));
                }
                a.failed = true;
                a.before_failed = true;
                a.world_init_failed = true;
                a.nonpass = true;
                stop = true;
                a.reason = Some(Reason::BeforeHookFailed(tok.clone()));
            }
            _ => {
                world = true;
                let key = format!("before:{}", sc.name);
                let (oc, inv) = take_inv(&key);
                a.callbacks.push((key.clone(), Some(inv)));
                match token_for(oc, &key, inv) {
                    None => {
                        if *e != (ScEv::HookPassed { before: true }) {
                            return Err(("before-hook-result", format!("before hook passes in the plan, observed {e:?}")));
                        }
                    }
                    Some(t) => match e {
                        ScEv::HookFailed { before: true, tok, world: w } if *tok == t => {
                            if w.is_none() {
                                return Err(("world-in-event", "before hook failed after the World was created, but the event carries no World".into()));
                            }
                            a.world_ids_in_events.extend(*w);
                            a.failed = true;
                            a.before_failed = true;
                            a.nonpass = true;
                            stop = true;
                            a.reason = Some(Reason::BeforeHookFailed(t));
                        }
                        _ => return Err(("before-hook-result", format!("before hook panics with {t:?} in the plan, observed {e:?}"))),
                    },
                }
            }
        }
    }

    for st in &sc.steps {
        if stop {
            break;
        }
        let e = next("step Started")?;
        if *e != (ScEv::StepStarted { bg: st.bg, text: st.text.clone() }) {
            return Err(("step-order", format!("expected Started of {} step `{}`, got {e:?}", if st.bg { "background" } else { "scenario" }, st.text)));
        }
        let e = next("step result")?;
        let (rbg, rtext) = match e {
            ScEv::StepPassed { bg, text, .. } | ScEv::StepSkipped { bg, text } | ScEv::StepFailed { bg, text, .. } => (*bg, text.as_str()),
            other => return Err(("step-result-missing", format!("step `{}` Started is followed by {other:?}", st.text))),
        };
        if rbg != st.bg || rtext != st.text {
            return Err(("step-result-other", format!("result event belongs to another step / kind: {e:?} (expected `{}`, bg={})", st.text, st.bg)));
        }
        match st.class {
            "none" => {
                if !matches!(e, ScEv::StepSkipped { .. }) {
                    return Err(("unmatched-not-skipped", format!("step without definition must be Skipped, got {e:?}")));
                }
                a.skipped = true;
                a.nonpass = true;
                stop = true;
                a.reason = Some(Reason::StepSkipped);
            }
            "amb" => {
                // candidates sorted by (regex, location): `vlab/dup.rs` < `vlab/dup_copy.rs`
                let exp = if st.text.starts_with("dup ") {
                    vec![(super::driver::RE_DUP.to_string(), Some(super::driver::DUP_LOC_1.line)), (super::driver::RE_DUP.to_string(), Some(super::driver::DUP_LOC_2.line))]
                } else {
                    vec![(RE_OK.to_string(), Some(OK_LOC.line)), (RE_AMB.to_string(), Some(AMB_LOC_2.line))]
                };
                match e {
                    ScEv::StepFailed { err: ErrKind::Ambiguous(m), world: w, captures, loc, .. } => {
                        if *m != exp {
                            return Err(("ambiguous-candidates", format!("ambiguity must list {exp:?}, got {m:?}")));
                        }
                        if w.is_some() != world {
                            return Err(("world-in-event", format!("ambiguous failure: World in event = {}, model = {world}", w.is_some())));
                        }
                        if *captures || loc.is_some() {
                            return Err(("ambiguous-payload", "ambiguous failure carries captures/location".into()));
                        }
                        a.world_ids_in_events.extend(*w);
                    }
                    _ => return Err(("ambiguous-not-failed", format!("ambiguous step must be Failed(AmbiguousMatch), got {e:?}"))),
                }
                a.failed = true;
                a.step_failed = true;
                a.nonpass = true;
                stop = true;
                a.reason = Some(Reason::StepFailedAmbiguous);
            }
            _ => {
                if !world {
                    a.world_new_called = true;
                    if let ScEv::StepFailed { err: ErrKind::Panic(tok), world: w, loc, .. } = e {
                        if wn_step.contains(tok) {
                            if w.is_some() {
                                return Err(("world-in-event", "World creation failed but the failure event carries a World".into()));
                            }
                            if *loc != Some(OK_LOC.line) {
                                return Err(("step-location", format!("failure event location {loc:?}")));
                            }
                            a.failed = true;
                            a.step_failed = true;
                            a.world_init_failed = true;
                            a.nonpass = true;
                            stop = true;
                            a.reason = Some(Reason::StepFailedPanic(tok.clone()));
                            continue;
                        }
                    }
                    world = true;
                }
                let key = format!("step:{}", st.text);
                a.executed_steps += 1;
                let expected_tok: Option<Option<Tok>> = if st.bg {
                    a.callbacks.push((key.clone(), None));
                    None // admissible set
                } else {
                    let (oc, inv) = take_inv(&key);
                    a.callbacks.push((key.clone(), Some(inv)));
                    Some(token_for(oc, &key, inv))
                };
                match e {
                    ScEv::StepPassed { loc, cap0, ngroups, .. } => {
                        if let Some(Some(t)) = &expected_tok {
                            return Err(("step-result", format!("step `{}` panics with {t:?} in the plan, observed Passed", st.text)));
                        }
                        if *cap0 != Some((0, st.text.len())) || *ngroups != 1 {
                            return Err(("step-captures", format!("Passed event of `{}` carries capture locations {cap0:?} / {ngroups} groups, the definition matches the whole text with no group", st.text)));
                        }
                        if *loc != Some(OK_LOC.line) {
                            return Err(("step-location", format!("Passed event location {loc:?}, expected {:?}", OK_LOC.line)));
                        }
                    }
                    ScEv::StepFailed { err: ErrKind::Panic(tok), world: w, loc, captures, .. } => {
                        let admissible = match &expected_tok {
                            Some(Some(t)) => t == tok,
                            Some(None) => false,
                            None => case.plan.get(&key).is_some_and(|v| v.iter().enumerate().any(|(i, pe)| token_for(pe.oc, &key, i).as_ref() == Some(tok))),
                        };
                        if !admissible {
                            return Err(("step-result", format!("step `{}`: failure payload {tok:?} is not what the plan injects ({expected_tok:?})", st.text)));
                        }
                        if w.is_none() {
                            return Err(("world-in-event", "step panicked with a World, but the event carries none".into()));
                        }
                        if *loc != Some(OK_LOC.line) || !*captures {
                            return Err(("step-location", format!("Failed event location {loc:?} captures {captures}")));
                        }
                        a.world_ids_in_events.extend(*w);
                        a.failed = true;
                        a.step_failed = true;
                        a.nonpass = true;
                        stop = true;
                        a.reason = Some(Reason::StepFailedPanic(tok.clone()));
                    }
                    other => return Err(("step-result", format!("matched step `{}` must be Passed or Failed(Panic), got {other:?}", st.text))),
                }
            }
        }
    }
    a.world_expected = world;

    if case.after {
        let e = next("after HookStarted")?;
        if *e != (ScEv::HookStarted { before: false }) {
            return Err(("after-hook-missing", format!("expected after-hook Started (after any failure event), got {e:?}")));
        }
        let key = format!("after:{}", sc.name);
        let (oc, inv) = take_inv(&key);
        a.callbacks.push((key.clone(), Some(inv)));
        let e = next("after hook result")?;
        match token_for(oc, &key, inv) {
            None => {
                if *e != (ScEv::HookPassed { before: false }) {
                    return Err(("after-hook-result", format!("after hook passes in the plan, observed {e:?}")));
                }
            }
            Some(t) => match e {
                ScEv::HookFailed { before: false, tok, world: w } if *tok == t => {
                    if w.is_some() != world {
                        return Err(("world-in-event", format!("after hook failure: World in event = {}, model = {world}", w.is_some())));
                    }
                    a.world_ids_in_events.extend(*w);
                    a.failed = true;
                    a.after_failed = true;
                    a.nonpass = true;
                }
                _ => return Err(("after-hook-result", format!("after hook panics with {t:?} in the plan, observed {e:?}"))),
            },
        }
    }
    let e = next("Finished")?;
    if *e != ScEv::Finished {
        return Err(("finished-missing", format!("expected Finished, got {e:?}")));
    }
    if let Some(e) = it.next() {
        return Err(("event-after-finished", format!("event after Finished: {e:?}")));
    }
    Ok(())
}
