//! RunnerLab properties C01..C10 as `engine::Property` implementations.

use serde_json::json;

use super::{
    case::{Profile, RCase, gen_case},
    driver::{RunEnd, RunLog, Schedule, run_case},
    model::{Modelled, model_run, short},
    oracles as o,
};
use crate::{
    engine::{CaseOut, Ctx, Exhaustive, Input, Property, Tier, Violation},
    tape::{Tape, hash_str, tape_from_seed},
};

pub struct LabProp {
    pub id: &'static str,
}

pub fn profile_for(id: &str, tier: Tier, ctx: &Ctx) -> Profile {
    let mut p = Profile::default();
    if tier == Tier::Thorough {
        p.max_features = 4;
        p.max_rule_scenarios = 3;
    }
    let known = |s: &str| ctx.is_known(s);
    match id {
        "C01" => {
            p.p_retry_closure = 55;
            p.p_fail_hook = 12;
            p.p_parser_error = 12;
            p.p_none = 14;
            p.p_allow_skipped = 18;
        }
        "C02" => {
            p.p_before = 50;
            p.p_after = 50;
            p.max_bg = 2;
            p.p_fail_step = 20;
        }
        "C03" => {
            p.p_empty_feature = 25;
            p.p_parser_error = 15;
            p.p_lazy_parser = 45;
            p.max_features = p.max_features.max(4);
        }
        "C04" => {
            p.p_lazy_parser = 85;
            p.max_parser_gates = 3;
            p.p_fail_fast = 5;
            p.p_delay = 35;
            p.p_retry_closure = 50;
        }
        "C05" => {
            p.p_retry_closure = 75;
            p.p_retry_tags_mode = 20;
            p.p_delay = 35;
            p.p_fail_step = 30;
            p.p_fail_hook = 12;
            p.p_fail_world = 8;
            p.p_fail_fast = 8;
        }
        "C06" => {
            p.conc_weights = [4, 4, 3, 2, 1, 1];
            p.p_cli_conc = 35;
            p.max_scenarios = 4;
            p.max_steps = 2;
            p.p_serial_tag = 5;
            p.p_fail_fast = 8;
            p.p_wide = 6;
        }
        "C07" => {
            p.p_serial_tag = 30;
            p.p_custom_classifier = 25;
            p.p_lazy_parser = 45;
            p.p_retry_closure = 55;
            p.p_delay = 45;
            p.p_fail_step = 28;
            p.max_steps = 2;
            p.p_focus_serial_retry = 30;
        }
        "C08" => {
            p.p_fail_fast = 85;
            p.p_fail_step = 22;
            p.p_retry_closure = 40;
            p.p_parser_error = 12;
            p.max_scenarios = 4;
        }
        "C09" => {
            p.p_before = 60;
            p.p_after = 70;
            p.conc_weights = [1, 3, 3, 2, 3, 2];
            p.p_fail_world = 8;
        }
        "C10" => {
            p.p_fail_step = 30;
            p.p_fail_hook = 20;
            p.p_fail_world = 12;
            p.p_before = 55;
            p.p_after = 55;
        }
        _ => {}
    }
    // known findings, excluded by construction (counted in `excluded_known`)
    if known("C04/idle-spin") && id != "C04" {
        p.exclude_lazy_parser = true;
    }
    if id == "C01" && known("C01/verdict/non-final-hook-failure") {
        p.exclude_nonfinal_hook_failure = true;
    }
    p
}

pub fn small_profile() -> Profile {
    Profile {
        max_features: 2,
        max_scenarios: 2,
        max_rules: 1,
        max_rule_scenarios: 1,
        max_steps: 2,
        max_bg: 1,
        max_gates: 1,
        max_parser_gates: 1,
        p_retry_closure: 35,
        p_delay: 0,
        ..Profile::default()
    }
}

pub struct Judged {
    pub case: RCase,
    pub log: RunLog,
    pub m: Modelled,
}

pub fn execute(input: &Input, profile: &Profile) -> Judged {
    let mut ta = Tape::new(input.a.clone());
    let case = gen_case(&mut ta, profile);
    let mut tb = Tape::new(input.b.clone());
    let log = run_case(&case, &mut Schedule::Tape(&mut tb));
    let m = model_run(&case, &log);
    Judged { case, log, m }
}

fn sample_of(j: &Judged) -> serde_json::Value {
    let trace: Vec<String> = j
        .log
        .events
        .iter()
        .take(60)
        .map(|e| match e.sc() {
            Some((s, r, _)) => format!("{s}{}: {}", r.map_or(String::new(), |r| format!("#{}/{}", r.0, r.1)), short(e)),
            None => format!("{}{} {:?}", e.f, e.r.as_deref().map_or(String::new(), |r| format!("/{r}")), e.k),
        })
        .collect();
    let sched: Vec<String> = j.log.quiescent.iter().take(40).map(|q| format!("{}:{}/{}", q.action, q.choice, q.branching)).collect();
    let route = if super::driver::via_facade(&j.case) { "Cucumber::custom(parser, runner::Basic::default(), writer).<builder calls>.run(())" } else { "runner::Basic::default().<builder calls>.run(parser, cli)" };
    let calls = format!("{:?}", super::driver::builder_ops(&j.case, super::driver::via_facade(&j.case)));
    json!({"case": j.case.describe(), "route": route, "builder_calls_in_order": calls, "schedule": sched, "events": trace, "n_events": j.log.events.len(), "polls": j.log.polls, "end": format!("{:?}", j.log.end)})
}

pub fn judge(id: &str, j: &Judged, ctx: &Ctx) -> CaseOut {
    let (case, log, m) = (&j.case, &j.log, &j.m);
    let (end_v, herr) = o::check_end(log);
    let mut all: Vec<Violation> = vec![];
    all.extend(end_v);
    let mut labels: Vec<&'static str> = vec![];
    let (own, nt): (Vec<Violation>, bool) = match id {
        "C02" => (m.violations.clone(), m.attempts.iter().any(|a| a.nonpass || case.before || case.after) && m.attempts.iter().any(|a| a.has_bg)),
        "C03" => (o::check_c03(case, log), o::nt_c03(case, log, m)),
        "C04" => (o::check_c04(case, log).into_iter().chain(o::check_c04_starved(case, log, m)).collect(), o::nt_c04(log)),
        "C05" => (o::check_c05(case, log, m), o::nt_c05(m)),
        "C06" => (o::check_c06(case, log, m), o::nt_c06(case, log)),
        "C07" => (o::check_c07(case, log, m), o::nt_c07(case, log, m)),
        "C08" => (o::check_c08(case, log, m), o::nt_c08(case, log, m)),
        "C09" => (o::check_c09(case, log, m), o::nt_c09(case, log, m)),
        "C10" => (o::check_c10(case, log, m), o::nt_c10(log)),
        _ => (vec![], false),
    };
    // A run that did not complete is judged only through `check_end` (C04 / C10 signatures):
    // its in-flight attempts are truncated, so the per-attempt oracles do not apply.
    if log.end == RunEnd::Completed {
        all.extend(own);
    } else if let RunEnd::EscapedPanic(p) = &log.end {
        let open: Vec<String> = m.attempts.iter().filter(|a| a.finished.is_none()).map(|a| format!("{}{:?}", a.scenario, a.retries)).collect();
        if id == "C02" {
            // C02's own clause: a panicking step / hook / World creation is *Failed with the payload*
            // and the attempt still reaches Finished. A payload that left the stream did neither.
            all.push(Violation::new("C02/panic-not-reported-as-failed", format!("the panic `{p}` of a user callback left the event stream instead of becoming a Failed event; attempts left without Finished: {open:?}")));
        }
        if id == "C09" && case.after {
            // C09's own clause: the after hook runs exactly once after the last executed step - also
            // after a failed step. The attempts cut off by the escaping panic never got theirs.
            let after_calls = log.calls.iter().filter(|c| c.phase == crate::lab::Phase::Enter && c.key.starts_with("after:")).count();
            let started = m.attempts.iter().filter(|a| a.started.is_some()).count();
            if after_calls < started {
                all.push(Violation::new("C09/after-hook-missing-after-panic", format!("the panic `{p}` of a user callback tore down the run: {started} attempts started, the after hook ran {after_calls} times; attempts left without Finished: {open:?}")));
            }
        }
        if id == "C04" {
            // C04: "every scenario handed to the runner is attempted at least once ... the event
            // stream ends after finitely many polls": torn down by a panic it neither ends nor
            // attempts what was still queued.
            let never: Vec<&str> = case.scenarios.iter().map(|s| s.name.as_str()).filter(|n| !m.attempts.iter().any(|a| a.scenario == *n && a.started.is_some())).collect();
            all.push(Violation::new(
                "C04/torn-down-by-panic",
                format!("polling the event stream panicked with `{p}` instead of the stream ending; scenarios never attempted: {never:?}; attempts left without Finished: {open:?}"),
            ));
        }
        if id == "C03" {
            // C03: "exactly one run-Finished as its last item, after which the stream ends"
            all.push(Violation::new("C03/run-finished-missing-after-panic", format!("the event stream was torn down by the panic `{p}` of a user callback: it has no run-Finished, {} Started brackets stay open", log.events.iter().filter(|e| matches!(e.k, super::driver::EvKind::FeatureStarted | super::driver::EvKind::RuleStarted)).count())));
        }
        if id == "C08" && case.fail_fast() {
            // C08: "every attempt already started still runs to its Finished event ... and the run ends with run-Finished"
            all.push(Violation::new("C08/not-closed-cleanly-after-panic", format!("fail-fast run torn down by the panic `{p}` of a user callback; attempts left without Finished: {open:?}")));
        }
    }
    if let RunEnd::Stalled(why) | RunEnd::NoProgress(why) = &log.end {
        // a run that never ends also breaks the closing clauses of other properties
        let failed_final = m.attempts.iter().any(|a| a.finished.is_some() && a.failed && a.retries.is_none_or(|r| r.1 == 0));
        if id == "C08" && case.fail_fast() && failed_final {
            all.push(Violation::new("C08/not-closed-cleanly/stalled", format!("fail-fast run with a final failure never reached run-Finished: {why}")));
        }
        let waiting: Vec<String> = m
            .attempts
            .iter()
            .filter(|a| a.finished.is_some() && a.failed && a.retries.is_some_and(|r| r.1 > 0))
            .filter(|a| !m.attempts.iter().any(|b| b.scenario == a.scenario && b.retries.map(|r| r.0) == a.retries.map(|r| r.0 + 1)))
            .map(|a| format!("{}{:?}", a.scenario, a.retries))
            .collect();
        if id == "C05" && !waiting.is_empty() && !(case.fail_fast() && failed_final) {
            all.push(Violation::new("C05/retry-never-started/stalled", format!("the run stalled with the retries of {waiting:?} never started: {why}")));
        }
    }
    // labels
    if case.lazy {
        labels.push("lazy_parser");
    }
    if m.attempts.iter().any(|a| a.retries.is_some_and(|r| r.0 > 0)) {
        labels.push("retried_attempt");
    }
    if o::interleaved(log) {
        labels.push("two_in_flight");
    }
    if m.attempts.iter().any(|a| a.before_failed || a.after_failed) {
        labels.push("hook_failure");
    }
    if m.attempts.iter().any(|a| a.world_init_failed) {
        labels.push("world_init_failure");
    }
    if m.attempts.iter().any(|a| a.skipped) {
        labels.push("skipped_step");
    }
    if case.fail_fast() {
        labels.push("fail_fast");
    }
    if case.scenarios.iter().any(|s| s.serial) {
        labels.push("has_serial");
    }
    if case.has_delay() {
        labels.push("retry_delay");
    }
    if log.quiescent.iter().any(|q| q.action.starts_with("sleep")) {
        labels.push("sleep_action");
    }
    if log.events.iter().any(|e| matches!(e.k, super::driver::EvKind::ParserError(_))) {
        labels.push("parser_error");
    }
    if case.retry_closure.is_none() {
        labels.push("retry_tags_mode");
    }
    if case.custom_classifier {
        labels.push("custom_classifier");
    }
    if log.max_delayed_outstanding >= 2 {
        labels.push("two_delayed_retries_outstanding");
    }
    if case.scenarios.len() > 64 {
        labels.push("wide_default_limit_binds");
    }
    if super::driver::via_facade(case) {
        labels.push("via_cucumber_facade");
    }
    {
        let ops = super::driver::builder_ops(case, false);
        let pos = |o| ops.iter().position(|x| *x == o);
        if pos(super::driver::Op::Steps) != Some(0) {
            labels.push("builder_calls_permuted");
        }
    }
    if log.quiescent.iter().any(|q| q.action == "sleep-short") {
        labels.push("sleep_short");
    }
    if nt {
        labels.push("nontrivial");
    }
    if log.end != RunEnd::Completed {
        labels.push("not_completed");
    }
    // Only this property's violations are reported by this check; the others are counted.
    let prefix = format!("{id}/");
    let mut violations = vec![];
    for vi in all {
        if vi.sig.starts_with(&prefix) {
            violations.push(vi);
        } else {
            labels.push("foreign_violation");
        }
    }
    let desc = if ctx.want_sample || nt { Some(case.describe().to_string()) } else { None };
    let sched: String = log.quiescent.iter().map(|q| format!("{},", q.choice)).collect();
    let hash = desc.as_ref().map_or(0, |d| hash_str(&format!("{d}|{sched}")));
    CaseOut {
        violations,
        nontrivial: nt,
        hash,
        labels,
        sample: ctx.want_sample.then(|| sample_of(j)),
        excluded: case.excluded,
        harness_error: herr,
        counters: vec![("events", log.events.len() as u64), ("attempts", m.attempts.len() as u64), ("polls", log.polls as u64), ("quiescent_points", log.quiescent.len() as u64)],
    }
}

impl Property for LabProp {
    fn id(&self) -> &'static str {
        self.id
    }

    fn rule(&self) -> String {
        let nt = match self.id {
            "C02" => "some attempt has a non-pass outcome or a hook, and some attempt has >=1 background step",
            "C03" => ">=2 features whose brackets overlap in time, or a retried attempt",
            "C04" => "a parser gate was pending at a quiescent point with no scenario in flight, or the runner idled waiting for a retry delay",
            "C05" => ">=1 scenario with >=2 attempts",
            "C06" => "more concurrent scenarios than the limit and >=2 completions (refill opportunities)",
            "C07" => "serial and concurrent scenarios both present, and a serial scenario retried, or lazily delivered, or >=2 of each kind",
            "C08" => "fail-fast on, a final failure occurred, >=2 scenarios not yet started when it completed",
            "C09" => "a hook is set, some attempt executes >=2 steps, >=2 attempts in flight at once",
            "C10" => ">=2 injected faults in the case with >=1 non-string payload",
            _ => "",
        };
        format!(
            "RunnerLab: tape a -> feature set x per-(callback,invocation) outcome plan x runner configuration; tape b -> schedule (which pending gate the harness releases at each quiescent point, or sleep past a retry delay); the real runner::Basic is polled by hand. Non-trivial iff {nt}. Distinct = 64-bit hash of decoded case + schedule choices."
        )
    }

    fn assumptions(&self) -> Vec<String> {
        vec![
            "callbacks shared between attempts (background steps, World::new) are checked by admissibility + global accounting, not per-attempt prediction (DESIGN 4.2)".into(),
            "hash-map iteration order inside the runner is not controlled; oracles treat dependent order as unordered".into(),
            "retry delays use real (1-4 ms) sleeps; only lower bounds on elapsed time are asserted".into(),
        ]
    }

    fn tape_lens(&self, tier: Tier) -> (usize, usize) {
        match tier {
            Tier::Quick => (700, 160),
            Tier::Thorough => (1000, 300),
        }
    }

    fn cases(&self, tier: Tier) -> u64 {
        let q = match self.id {
            "C05" => 8000,
            "C07" => 12_000,
            _ => 10_000,
        };
        match tier {
            Tier::Quick => q,
            Tier::Thorough => q * 20,
        }
    }

    fn floors(&self) -> Vec<(&'static str, f64)> {
        vec![("nontrivial", 0.03)]
    }

    fn run(&self, input: &Input, ctx: &Ctx) -> CaseOut {
        let profile = profile_for(self.id, ctx.tier, ctx);
        let j = execute(input, &profile);
        let mut out = judge(self.id, &j, ctx);
        if self.id == "C08" && out.violations.is_empty() {
            c08_metamorphic(&j, input, &profile, &mut out);
        }
        if self.id == "C10" && input.b.first().is_some_and(|x| x % 4 == 0) {
            // "a panic ..., or an error, in a step": steps defined through the attribute macros that
            // *return* Err (every spelling of the return type in the C19 zoo), run by the real runner
            let mut tz = crate::tape::Tape::new(input.b.iter().rev().copied().collect());
            let (v, sample) = crate::func::c19::check_macro_step_errors(&mut tz, "C10/macro-step-error");
            out.violations.extend(v);
            out.labels.push("macro_steps_returning_err");
            if let Some(s) = out.sample.as_mut() {
                s["macro_step_errors"] = sample;
            }
        }
        out
    }

    fn exhaustive(&self, tier: Tier, shard: (u64, u64), ctx: &Ctx, sink: &mut dyn FnMut(CaseOut, Input) -> bool) -> Option<Exhaustive> {
        if !matches!(self.id, "C02" | "C03" | "C06" | "C07" | "C09") {
            return None;
        }
        let n_cases: u64 = match tier {
            Tier::Quick => 160,
            Tier::Thorough => 2000,
        };
        let cap: usize = match tier {
            Tier::Quick => 300,
            Tier::Thorough => 5000,
        };
        let mut profile = small_profile();
        let full = profile_for(self.id, tier, ctx);
        profile.exclude_lazy_parser = full.exclude_lazy_parser;
        if self.id == "C07" {
            // (no retry delays here: the nap alternatives would make the schedule trees too large to
            // finish; the delayed-retry shapes are covered by the random part)
            profile.p_serial_tag = 35;
        }
        if self.id == "C06" {
            profile.conc_weights = [4, 4, 1, 0, 0, 0];
            profile.max_scenarios = 3;
        }
        let mut complete = true;
        let (mut included, mut truncated) = (0u64, 0u64);
        'cases: for ci in (0..n_cases).filter(|c| c % shard.1 == shard.0) {
            let a = tape_from_seed(crate::tape::mix(0xE5, ci), 400);
            let mut prefix: Vec<usize> = vec![];
            let mut n = 0usize;
            loop {
                let mut ta = Tape::new(a.clone());
                let case = gen_case(&mut ta, &profile);
                let log = run_case(&case, &mut Schedule::Fixed(prefix.clone(), 0));
                let m = model_run(&case, &log);
                // tape equivalent of this schedule
                let b: Vec<u32> = log.quiescent.iter().filter(|q| q.branching > 0).map(|q| (((q.choice as u64) << 32).div_ceil(q.branching as u64)).min(u64::from(u32::MAX)) as u32).collect();
                let branching: Vec<(usize, usize)> = log.quiescent.iter().filter(|q| q.branching > 0).map(|q| (q.choice, q.branching)).collect();
                let j = Judged { case, log, m };
                let out = judge(self.id, &j, &Ctx { want_sample: n == 0 && ci < 2, tier, known: ctx.known.clone(), strict: false });
                if !sink(out, Input { a: a.clone(), b }) {
                    complete = false;
                    break 'cases;
                }
                n += 1;
                // next schedule in DFS order
                let mut next: Option<Vec<usize>> = None;
                for i in (0..branching.len()).rev() {
                    if branching[i].0 + 1 < branching[i].1 {
                        let mut p: Vec<usize> = branching[..i].iter().map(|x| x.0).collect();
                        p.push(branching[i].0 + 1);
                        next = Some(p);
                        break;
                    }
                }
                match next {
                    Some(p) if n < cap => prefix = p,
                    Some(_) => {
                        truncated += 1;
                        break;
                    }
                    None => {
                        included += 1;
                        break;
                    }
                }
            }
        }
        Some(Exhaustive {
            description: format!(
                "every gate-release order (complete DFS over the harness-owned schedule tree) of those of {n_cases} generated small cases (<=2 features, <=2+1 scenarios, <=2 steps, <=1 gate per callback) whose schedule tree has at most {cap} leaves, sharded over the workers"
            ),
            complete,
            included,
            truncated,
        })
    }
}

/// C08: with a failure-free outcome, a fail-fast run and a normal run give the same per-scenario outcomes.
fn c08_metamorphic(j: &Judged, input: &Input, profile: &Profile, out: &mut CaseOut) {
    if !j.case.fail_fast() || j.log.end != RunEnd::Completed {
        return;
    }
    if o::first_final_failure(&j.m, &j.log).is_some() || j.log.events.iter().any(|e| matches!(e.k, super::driver::EvKind::ParserError(_))) {
        return;
    }
    let mut ta = Tape::new(input.a.clone());
    let mut case2 = gen_case(&mut ta, profile);
    case2.fail_fast_builder = false;
    case2.fail_fast_cli = false;
    let mut tb = Tape::new(input.b.clone());
    let log2 = run_case(&case2, &mut Schedule::Tape(&mut tb));
    let m2 = model_run(&case2, &log2);
    if log2.end != RunEnd::Completed {
        return;
    }
    out.labels.push("metamorphic_pair");
    let (s1, s2) = (o::outcome_summary(&j.log, &j.m), o::outcome_summary(&log2, &m2));
    // Shared background steps consume plan entries in schedule order; compare only when both runs
    // took the same schedule (same number of quiescent points and same choices).
    let same_sched = j.log.quiescent.len() == log2.quiescent.len() && j.log.quiescent.iter().zip(&log2.quiescent).all(|(a, b)| a.action == b.action);
    if same_sched && s1 != s2 {
        let diff: Vec<String> = s1.iter().filter(|(k, v)| s2.get(*k) != Some(v)).map(|(k, v)| format!("{k}: fail-fast {v:?} vs normal {:?}", s2.get(k))).collect();
        out.violations.push(Violation::new("C08/metamorphic-outcomes", format!("no final failure, yet outcomes differ between the fail-fast and the normal run: {}", diff.join("; "))));
    }
}
