//! Oracles C03..C10 over a `RunLog` (C02 is `model::model_run`, C01 lives in `crate::verdict`).

use std::{
    collections::{BTreeMap, BTreeSet, HashMap, HashSet},
    time::Duration,
};

use super::{
    Call, Phase, Reason,
    case::{Item, RCase},
    driver::{EvKind, REv, RunEnd, RunLog, ScEv},
    model::{Attempt, Modelled, short},
};
use crate::engine::Violation;

fn v(sig: &str, msg: String) -> Violation {
    Violation::new(sig, msg)
}

pub fn is_sc_started(e: &REv) -> bool {
    matches!(e.sc(), Some((_, _, ScEv::Started)))
}
pub fn is_sc_finished(e: &REv) -> bool {
    matches!(e.sc(), Some((_, _, ScEv::Finished)))
}

/// Index (in the stream) of the `Finished` of the first finally failed attempt.
pub fn first_final_failure(m: &Modelled, log: &RunLog) -> Option<(usize, usize)> {
    m.attempts
        .iter()
        .enumerate()
        .filter(|(_, a)| a.is_final() && attempt_failed_observed(a, log))
        .filter_map(|(i, a)| a.finished.map(|f| (f, i)))
        .min()
}

/// Failure of an attempt as visible in the stream (independent of the model).
pub fn attempt_failed_observed(a: &Attempt, log: &RunLog) -> bool {
    a.ev.iter().any(|i| matches!(log.events[*i].sc(), Some((_, _, ScEv::StepFailed { .. } | ScEv::HookFailed { .. }))))
}

// ------------------------------------------------------------------------------------------
// termination (shared by every RunnerLab property: a run that does not complete cannot be judged)

pub fn check_end(log: &RunLog) -> (Vec<Violation>, Option<String>) {
    match &log.end {
        RunEnd::Completed => (vec![], None),
        RunEnd::IdleSpin(n) => (
            vec![v("C04/idle-spin", format!("execute() took {n} turns of its idle branch inside one poll without returning Pending: it spins instead of letting the parser make progress; received {} events so far", log.events.len()))],
            None,
        ),
        RunEnd::NoProgress(m) => (vec![v("C04/no-progress", m.clone())], None),
        RunEnd::Stalled(m) => (vec![v("C04/stalled", format!("{m}; received {} events, last: {:?}", log.events.len(), log.events.last().map(short)))], None),
        RunEnd::EscapedPanic(m) => (vec![v("C10/escaped-panic", format!("a panic escaped from the event stream: {m}"))], None),
        RunEnd::TimerTimeout => (vec![], Some("timer wake-up did not arrive within 5 s (inconclusive)".into())),
    }
}

// ------------------------------------------------------------------------------------------
// C03

pub struct Delivered<'a> {
    pub features: Vec<&'a cucumber::gherkin::Feature>,
    pub errors: Vec<&'a str>,
}

pub fn delivered<'a>(case: &'a RCase, log: &RunLog) -> Delivered<'a> {
    let n = log.parser_delivered as usize;
    let mut d = Delivered { features: vec![], errors: vec![] };
    for it in case.items.iter().take(n) {
        match &it.item {
            Item::Feature(f) => d.features.push(f),
            Item::Error(e) => d.errors.push(e.as_str()),
        }
    }
    d
}

pub fn check_c03(case: &RCase, log: &RunLog) -> Vec<Violation> {
    let mut out = vec![];
    let evs = &log.events;
    if log.end != RunEnd::Completed {
        return out;
    }
    // run Started
    let started: Vec<usize> = evs.iter().filter(|e| e.k == EvKind::Started).map(|e| e.idx).collect();
    if started.len() != 1 {
        out.push(v("C03/run-started", format!("{} run-Started events", started.len())));
    } else if let Some(first_feat) = evs.iter().find(|e| !e.f.is_empty()) {
        if first_feat.idx < started[0] {
            out.push(v("C03/run-started", format!("feature event #{} precedes run-Started #{}", first_feat.idx, started[0])));
        }
    }
    // run Finished
    let fin: Vec<usize> = evs.iter().filter(|e| e.k == EvKind::Finished).map(|e| e.idx).collect();
    if fin.len() != 1 || fin[0] + 1 != evs.len() {
        out.push(v("C03/run-finished", format!("run-Finished at {fin:?}, stream has {} items", evs.len())));
    }
    // parser errors + ParsingFinished
    let d = delivered(case, log);
    let errs: Vec<&str> = evs.iter().filter_map(|e| if let EvKind::ParserError(n) = &e.k { Some(n.as_str()) } else { None }).collect();
    if errs != d.errors {
        out.push(v("C03/parser-errors", format!("parser errors in the stream {errs:?}, delivered by the parser {:?}", d.errors)));
    }
    let pf: Vec<&REv> = evs.iter().filter(|e| matches!(e.k, EvKind::ParsingFinished { .. })).collect();
    if pf.len() != 1 {
        out.push(v("C03/parsing-finished", format!("{} ParsingFinished events", pf.len())));
    } else {
        let exp = EvKind::ParsingFinished {
            features: d.features.len(),
            rules: d.features.iter().map(|f| f.rules.len()).sum(),
            scenarios: d.features.iter().map(|f| f.scenarios.len() + f.rules.iter().map(|r| r.scenarios.len()).sum::<usize>()).sum(),
            steps: d.features.iter().map(|f| f.scenarios.iter().map(|s| s.steps.len()).sum::<usize>() + f.rules.iter().flat_map(|r| r.scenarios.iter()).map(|s| s.steps.len()).sum::<usize>()).sum(),
            parser_errors: d.errors.len(),
        };
        if pf[0].k != exp {
            out.push(v("C03/parsing-finished-counts", format!("{:?} but the parser delivered {exp:?}", pf[0].k)));
        }
        if let Some(last_err) = evs.iter().filter(|e| matches!(e.k, EvKind::ParserError(_))).map(|e| e.idx).max() {
            if last_err > pf[0].idx {
                out.push(v("C03/parsing-finished", "parser error after ParsingFinished".into()));
            }
        }
    }
    // brackets
    #[derive(Default)]
    struct B {
        started: Vec<usize>,
        finished: Vec<usize>,
        first_sc: Option<usize>,
        last_sc: Option<usize>,
        ptrs: BTreeSet<usize>,
    }
    let mut feats: BTreeMap<String, B> = BTreeMap::new();
    let mut rules: BTreeMap<(String, String), B> = BTreeMap::new();
    for e in evs {
        if e.f.is_empty() {
            continue;
        }
        let fb = feats.entry(e.f.clone()).or_default();
        fb.ptrs.insert(e.fptr);
        match &e.k {
            EvKind::FeatureStarted => fb.started.push(e.idx),
            EvKind::FeatureFinished => fb.finished.push(e.idx),
            EvKind::RuleStarted | EvKind::RuleFinished | EvKind::Sc { .. } => {
                if let Some(r) = &e.r {
                    let rb = rules.entry((e.f.clone(), r.clone())).or_default();
                    rb.ptrs.insert(e.rptr);
                    match &e.k {
                        EvKind::RuleStarted => rb.started.push(e.idx),
                        EvKind::RuleFinished => rb.finished.push(e.idx),
                        _ => {
                            rb.first_sc.get_or_insert(e.idx);
                            rb.last_sc = Some(e.idx);
                        }
                    }
                }
                if matches!(e.k, EvKind::Sc { .. }) {
                    let fb = feats.get_mut(&e.f).unwrap();
                    fb.first_sc.get_or_insert(e.idx);
                    fb.last_sc = Some(e.idx);
                }
            }
            _ => {}
        }
    }
    for (f, b) in &feats {
        if b.ptrs.len() != 1 {
            out.push(v("C03/feature-identity", format!("feature {f} reported through {} different Source instances", b.ptrs.len())));
        }
        match (b.first_sc, b.last_sc) {
            (Some(first), Some(last)) => {
                if b.started.len() != 1 || b.finished.len() != 1 {
                    out.push(v("C03/feature-bracket-count", format!("feature {f}: {} Started, {} Finished", b.started.len(), b.finished.len())));
                } else if !(b.started[0] < first && last < b.finished[0]) {
                    out.push(v("C03/feature-bracket-order", format!("feature {f}: Started #{} Finished #{} but scenario events span #{first}..#{last}", b.started[0], b.finished[0])));
                }
            }
            _ => out.push(v("C03/empty-feature-bracket", format!("feature {f} has bracket events but no scenario event"))),
        }
    }
    for ((f, r), b) in &rules {
        if b.ptrs.len() != 1 {
            out.push(v("C03/rule-identity", format!("rule {r} reported through {} different Source instances", b.ptrs.len())));
        }
        let fb = &feats[f];
        match (b.first_sc, b.last_sc) {
            (Some(first), Some(last)) => {
                if b.started.len() != 1 || b.finished.len() != 1 {
                    out.push(v("C03/rule-bracket-count", format!("rule {r}: {} Started, {} Finished", b.started.len(), b.finished.len())));
                } else {
                    if !(b.started[0] < first && last < b.finished[0]) {
                        out.push(v("C03/rule-bracket-order", format!("rule {r}: Started #{} Finished #{} but scenario events span #{first}..#{last}", b.started[0], b.finished[0])));
                    }
                    if fb.started.len() == 1 && fb.finished.len() == 1 && !(fb.started[0] < b.started[0] && b.finished[0] < fb.finished[0]) {
                        out.push(v("C03/rule-bracket-nesting", format!("rule {r} bracket #{}..#{} not inside feature bracket #{}..#{}", b.started[0], b.finished[0], fb.started[0], fb.finished[0])));
                    }
                }
            }
            _ => out.push(v("C03/empty-rule-bracket", format!("rule {r} has bracket events but no scenario event"))),
        }
    }
    // every feature/rule event refers to a delivered feature
    for f in feats.keys() {
        if !d.features.iter().any(|x| x.name == *f) {
            out.push(v("C03/unknown-feature", format!("events for feature {f} which the parser did not deliver")));
        }
    }
    // all started attempts finish
    let mut open: HashMap<(String, Option<(usize, usize)>), i64> = HashMap::new();
    for e in evs {
        if let Some((s, r, ev)) = e.sc() {
            match ev {
                ScEv::Started => *open.entry((s.to_string(), r)).or_default() += 1,
                ScEv::Finished => *open.entry((s.to_string(), r)).or_default() -= 1,
                _ => {}
            }
        }
    }
    for (k, n) in open {
        if n != 0 {
            out.push(v("C03/attempt-unbalanced", format!("attempt {k:?}: Started minus Finished = {n}")));
        }
    }
    out
}

pub fn nt_c03(case: &RCase, log: &RunLog, m: &Modelled) -> bool {
    // >= 2 features whose brackets overlap in time, or a retry straddling another scenario's completion
    let evs = &log.events;
    let mut open = 0;
    let mut overlap = false;
    for e in evs {
        match e.k {
            EvKind::FeatureStarted => {
                open += 1;
                if open >= 2 {
                    overlap = true;
                }
            }
            EvKind::FeatureFinished => open -= 1,
            _ => {}
        }
    }
    let retried = m.attempts.iter().any(|a| a.retries.is_some_and(|r| r.0 > 0));
    let _ = case;
    overlap || retried
}

// ------------------------------------------------------------------------------------------
// C04

/// "Every scenario handed to the runner is attempted ... under every completion order": a scenario
/// that is ready while a slot is free must be started without waiting for the user code of the
/// attempts in flight - under the completion order in which those finish last (they wait for what
/// the starved scenario does) it would never be attempted and the run would never end. Same
/// predicate as C06's refill obligation (reading R5).
pub fn check_c04_starved(case: &RCase, log: &RunLog, m: &Modelled) -> Vec<Violation> {
    refill_violation(case, log, m)
        .map(|(_, msg)| v("C04/ready-scenario-waits-for-running-ones", format!("{msg}: it is attempted only once user code of the attempts in flight completes - never, if they are the last to complete")))
        .into_iter()
        .collect()
}

pub fn check_c04(case: &RCase, log: &RunLog) -> Vec<Violation> {
    let mut out = vec![];
    // "lets the other side make progress": a future whose gate was opened (and whose waker was
    // called) must have been polled again before the runner goes quiet.
    // "while it waits for ... a retry delay it lets the other side make progress instead of spinning":
    // with nothing but the delay's timer able to make progress the runner must wait for that timer,
    // not poll itself in a loop (only meaningful in the default build: the tracing build wakes itself
    // on every poll by design)
    if log.busy_wait_during_delay > 0 {
        out.push(v(
            "C04/busy-wait-during-retry-delay",
            format!("while only a retry delay was outstanding (no gate pending, nothing running) the runner kept waking itself: {} busy rounds instead of waiting for its timer", log.busy_wait_during_delay),
        ));
    }
    if log.parser_polled_after_end > 0 {
        out.push(v(
            "C04/parser-polled-after-end",
            format!("the parser stream was polled {} more time(s) after it had returned None: a stream may block or panic then, so the run's termination would depend on the parser being fused", log.parser_polled_after_end),
        ));
    }
    if let Some(u) = &log.unresumed {
        out.push(v(
            "C04/released-future-not-resumed",
            format!(
                "at quiescent point #{} the runner went quiet (no event, no wake-up) although the futures waiting on {:?} had been woken: they were never polled ({} attempts in flight, delayed retries outstanding: {:?})",
                u.round, u.labels, u.in_flight, u.delayed
            ),
        ));
    }
    if log.end != RunEnd::Completed {
        return out; // reported by check_end
    }
    let supplied: BTreeSet<(String, Option<String>, String)> = case.scenarios.iter().map(|s| (s.feature.clone(), s.rule.clone(), s.name.clone())).collect();
    let started: BTreeSet<(String, Option<String>, String)> = log.events.iter().filter(|e| is_sc_started(e)).map(|e| (e.f.clone(), e.r.clone(), e.sc().unwrap().0.to_string())).collect();
    let extra: Vec<_> = started.difference(&supplied).collect();
    if !extra.is_empty() {
        out.push(v("C04/extra-scenario", format!("scenarios started that were never supplied: {extra:?}")));
    }
    if !case.fail_fast() {
        let missing: Vec<_> = supplied.difference(&started).collect();
        if !missing.is_empty() {
            out.push(v("C04/missing-scenario", format!("supplied scenarios that never started: {missing:?}")));
        }
    }
    // nothing else runs: exactly one first attempt per scenario
    let mut firsts: HashMap<(&str, Option<&str>, &str), usize> = HashMap::new();
    for e in log.events.iter().filter(|e| is_sc_started(e)) {
        let (s, r, _) = e.sc().unwrap();
        if r.is_none_or(|r| r.0 == 0) {
            *firsts.entry((e.f.as_str(), e.r.as_deref(), s)).or_default() += 1;
        }
    }
    if let Some((k, n)) = firsts.iter().find(|(_, n)| **n > 1) {
        out.push(v("C04/duplicate-first-attempt", format!("scenario {k:?} was started {n} times as a first attempt")));
    }
    // identity: one Source instance per scenario
    let mut ptrs: HashMap<&str, BTreeSet<usize>> = HashMap::new();
    for e in &log.events {
        if let EvKind::Sc { s, sptr, .. } = &e.k {
            ptrs.entry(s.as_str()).or_default().insert(*sptr);
        }
    }
    for (s, p) in ptrs {
        if p.len() != 1 {
            out.push(v("C04/scenario-identity", format!("scenario {s} reported through {} different Source instances", p.len())));
        }
    }
    if log.parser_delivered as usize != case.items.len() && !case.fail_fast() {
        out.push(v("C04/parser-not-drained", format!("parser delivered {} of {} items", log.parser_delivered, case.items.len())));
    }
    out
}

pub fn nt_c04(log: &RunLog) -> bool {
    log.quiescent.iter().any(|q| (q.in_flight == 0 && q.pending_labels.iter().any(|l| l.starts_with("parser:"))) || q.action == "wait")
}

// ------------------------------------------------------------------------------------------
// C05

pub fn fail_fast_tripped(case: &RCase, m: &Modelled, log: &RunLog) -> bool {
    case.fail_fast() && first_final_failure(m, log).is_some()
}

pub fn check_c05(case: &RCase, log: &RunLog, m: &Modelled) -> Vec<Violation> {
    let mut out = vec![];
    // "other scenarios keep running meanwhile": while a delayed retry is outstanding, a woken
    // callback of another attempt must be resumed before the runner goes quiet.
    if let Some(u) = log.unresumed.as_ref().filter(|u| !u.delayed.is_empty() && u.labels.iter().any(|l| l.starts_with("cb:"))) {
        out.push(v(
            "C05/stalled-during-retry-delay",
            format!(
                "while the retry delay of {:?} was outstanding the runner went quiet at quiescent point #{} without resuming the woken callbacks {:?}",
                u.delayed, u.round, u.labels
            ),
        ));
    }
    if log.end != RunEnd::Completed {
        return out;
    }
    // "while other scenarios keep running meanwhile": a retry waiting out its delay must not keep
    // ready concurrent scenarios from being dispatched into free slots
    if let Some((n_ev, msg)) = refill_violation(case, log, m) {
        let waiting_retry = m.attempts.iter().find(|a| {
            let delayed = case.sc(&a.scenario).and_then(|s| s.retry).and_then(|r| r.1).is_some();
            let finished_before = a.finished.is_some_and(|f| f < n_ev);
            let will_retry = a.retries.is_some_and(|r| r.1 > 0) && attempt_failed_observed(a, log);
            let next_started_before = m.attempts.iter().any(|b| b.scenario == a.scenario && b.retries.map(|r| r.0) == a.retries.map(|r| r.0 + 1) && b.started.is_some_and(|i| i < n_ev));
            delayed && finished_before && will_retry && !next_started_before
        });
        if let Some(a) = waiting_retry {
            out.push(v("C05/others-held-back-during-retry-delay", format!("while the retry of {} {:?} was waiting out its delay: {msg}", a.scenario, a.retries)));
        }
    }
    let tripped = fail_fast_tripped(case, m, log);
    let mut per: BTreeMap<&str, Vec<&Attempt>> = BTreeMap::new();
    for a in &m.attempts {
        per.entry(a.scenario.as_str()).or_default().push(a);
    }
    // world ids per attempt (from the callback log, attributable callbacks only)
    for (name, atts) in &per {
        let Some(sc) = case.sc(name) else { continue };
        let budget = sc.retry;
        for (k, a) in atts.iter().enumerate() {
            let exp = budget.map(|(n, _)| (k, n.saturating_sub(k)));
            if budget.is_some_and(|(n, _)| k > n) {
                out.push(v("C05/too-many-attempts", format!("{name}: attempt #{k} with a budget of {:?}", budget.map(|b| b.0))));
                continue;
            }
            if a.retries != exp {
                out.push(v("C05/retries-counter", format!("{name}: attempt #{k} carries retries {:?}, expected {exp:?} (budget {:?})", a.retries, budget.map(|b| b.0))));
            }
            let failed = if a.conforms { a.failed } else { attempt_failed_observed(a, log) };
            let left = exp.map_or(0, |r| r.1);
            let has_next = k + 1 < atts.len();
            let should = failed && left > 0;
            if has_next && !should {
                out.push(v(
                    if failed { "C05/retry-beyond-budget" } else { "C05/retry-without-failure" },
                    format!("{name}: attempt #{k} (failed={failed}, skipped={}, left={left}) is followed by another attempt", a.skipped),
                ));
            }
            if !has_next && should && !tripped {
                out.push(v("C05/retry-missing", format!("{name}: attempt #{k} failed with {left} retries left but no further attempt ran")));
            }
            if has_next {
                let b = atts[k + 1];
                // each attempt starts from a freshly created World
                if let (Some(ca), Some(cb)) = (first_callback_of(a, log), first_callback_of(b, log)) {
                    if let (Some(wa), Some(wb)) = (ca.world, cb.world) {
                        if wa == wb {
                            out.push(v("C05/world-reused", format!("{name}: attempts #{k} and #{} both run on World #{wa}", k + 1)));
                        }
                    }
                    // (only when the attempt's very first callback is attributable: shared background
                    // steps run before own steps and mutate the World first)
                    let first_is_attributable = b.callbacks.first().is_some_and(|c| c.1.is_some());
                    if first_is_attributable && cb.world.is_some() && cb.counter != 0 {
                        out.push(v("C05/world-not-fresh", format!("{name}: the first callback of attempt #{} sees a World already mutated {} times", k + 1, cb.counter)));
                    }
                }
                match (a.finished, b.started) {
                    (Some(f), Some(s)) if f < s => {}
                    (f, s) => out.push(v("C05/attempts-overlap", format!("{name}: attempt #{k} Finished at {f:?}, attempt #{} Started at {s:?}", k + 1))),
                }
                // delay lower bound
                if let Some((_, Some(delay))) = budget {
                    if let (Some(fin), Some(st)) = (a.finished, b.started) {
                        let fin_ev = &log.events[fin];
                        let q = log.quiescent.iter().rev().find(|q| q.seq < fin_ev.seq);
                        // earliest observable instant of attempt k+1: its first callback, else its Started reception
                        let st_ev = &log.events[st];
                        let first_cb = first_callback_of(b, log);
                        let t = first_cb.map_or(st_ev.at, |c| c.at.min(st_ev.at));
                        if let Some(q) = q {
                            let waited = t.saturating_duration_since(q.at);
                            if waited < delay {
                                out.push(v(
                                    "C05/delay-not-honoured",
                                    format!("{name}: retry #{} began {waited:?} after the last quiescent point preceding the failed attempt's Finished, configured delay {delay:?}", k + 1),
                                ));
                            }
                        }
                    }
                }
            }
        }
    }
    out
}

fn first_callback_of<'a>(a: &Attempt, log: &'a RunLog) -> Option<&'a Call> {
    // first attributable callback (exact invocation index known)
    a.callbacks.iter().find_map(|(k, inv)| inv.and_then(|i| log.calls.iter().find(|c| c.phase == Phase::Enter && c.key == *k && c.inv == i)))
}

pub fn nt_c05(m: &Modelled) -> bool {
    m.attempts.iter().any(|a| a.retries.is_some_and(|r| r.0 > 0))
}

// ------------------------------------------------------------------------------------------
// C06

pub fn check_c06(case: &RCase, log: &RunLog, m: &Modelled) -> Vec<Violation> {
    let mut out = vec![];
    let limit = case.effective_conc();
    // (a) prefix invariant over the stream
    let mut inflight: i64 = 0;
    let mut max = 0;
    for e in &log.events {
        if is_sc_started(e) {
            inflight += 1;
            max = max.max(inflight);
            if let Some(k) = limit {
                if inflight > k as i64 {
                    out.push(v("C06/limit-exceeded", format!("{inflight} attempts between Started and Finished at event #{}, limit {k}", e.idx)));
                    break;
                }
            }
        } else if is_sc_finished(e) {
            inflight -= 1;
        }
    }
    // (b) user code in progress
    if let Some(k) = limit {
        let mut open: HashSet<(String, usize)> = HashSet::new();
        for c in &log.calls {
            match c.phase {
                Phase::Enter => {
                    open.insert((c.key.clone(), c.inv));
                    if open.len() > k {
                        out.push(v("C06/user-code-exceeds-limit", format!("{} user callbacks in progress at once ({:?}), limit {k}", open.len(), open)));
                        break;
                    }
                }
                Phase::Exit => {
                    open.remove(&(c.key.clone(), c.inv));
                }
            }
        }
    }
    // (c) limit 1: whole attempts one after another
    if limit == Some(1) {
        let mut cur: Option<(String, Option<(usize, usize)>)> = None;
        for e in &log.events {
            if let Some((s, r, ev)) = e.sc() {
                let id = (s.to_string(), r);
                match ev {
                    ScEv::Started => {
                        if let Some(c) = &cur {
                            out.push(v("C06/limit-1-interleaved", format!("attempt {id:?} starts at #{} while {c:?} is still open", e.idx)));
                            break;
                        }
                        cur = Some(id);
                    }
                    ScEv::Finished => cur = None,
                    _ => {
                        if cur.as_ref() != Some(&id) {
                            out.push(v("C06/limit-1-interleaved", format!("event #{} of {id:?} inside attempt {cur:?}", e.idx)));
                            break;
                        }
                    }
                }
            }
        }
    }
    // (d) refill (R5)
    if let Some((_, msg)) = refill_violation(case, log, m) {
        out.push(v("C06/refill", msg));
    }
    let _ = max;
    out
}

/// Refill obligation (R5): at a quiescent point after a completion, with parsing finished, no
/// serial scenario ready or running and fail-fast not tripped, free slots must have been filled
/// with the concurrent scenarios that are ready. Returns the number of events received before the
/// offending quiescent point and a description.
pub fn refill_violation(case: &RCase, log: &RunLog, m: &Modelled) -> Option<(usize, String)> {
    if log.end != RunEnd::Completed {
        return None;
    }
    let limit = case.effective_conc();
        let pf_idx = log.events.iter().find(|e| matches!(e.k, EvKind::ParsingFinished { .. })).map(|e| e.idx);
        let ff = first_final_failure(m, log).map(|x| x.0);
        // A serial scenario waives the refill obligation (R5) while it is ready or running: unstarted,
        // in flight, or waiting for a retry whose deadline may have passed. A serial retry whose delay
        // has *certainly* not elapsed yet (its re-queue instant is later than the last quiescent point
        // before the failed attempt's Finished was received) blocks nothing.
        let serial_blocks = |n_ev: usize, q: &super::driver::Quiescent| -> bool {
            for s in case.scenarios.iter().filter(|s| s.serial) {
                let atts: Vec<&Attempt> = m.attempts.iter().filter(|a| a.scenario == s.name).collect();
                let started: Vec<&&Attempt> = atts.iter().filter(|a| a.started.is_some_and(|i| i < n_ev)).collect();
                let Some(last) = started.last() else { return true };
                match last.finished {
                    Some(f) if f < n_ev => {
                        let will_retry = attempt_failed_observed(last, log) && last.retries.is_some_and(|r| r.1 > 0);
                        if will_retry {
                            let certainly_waiting = s.retry.and_then(|r| r.1).is_some_and(|d| {
                                let fin_ev = &log.events[f];
                                log.quiescent.iter().rev().find(|x| x.seq < fin_ev.seq).is_some_and(|q0| q.at < q0.at + d)
                            });
                            if !certainly_waiting {
                                return true;
                            }
                        }
                    }
                    _ => return true, // in flight
                }
            }
            false
        };
        let first_started: HashMap<&str, usize> = {
            let mut h = HashMap::new();
            for e in &log.events {
                if let Some((s, _, ScEv::Started)) = e.sc() {
                    h.entry(s).or_insert(e.idx);
                }
            }
            h
        };
        let conc: Vec<&str> = case.scenarios.iter().filter(|s| !s.serial).map(|s| s.name.as_str()).collect();
        let mut prev_events = 0usize;
        for q in &log.quiescent {
            // events received before this quiescent point
            let n_ev = log.events.iter().take_while(|e| e.seq < q.seq).count();
            let had_completion = log.events[prev_events..n_ev].iter().any(is_sc_finished);
            prev_events = n_ev;
            if !had_completion {
                continue;
            }
            let parsed = pf_idx.is_some_and(|p| p < n_ev);
            let tripped = case.fail_fast() && ff.is_some_and(|f| f < n_ev);
            // Nothing at all in flight although a scenario of whatever type has been handed over
            // and not been started yet (it does start later): whatever else is waiting - e.g. a
            // retry for its delay - the runner may not sit idle on it.
            if parsed && !tripped && q.in_flight == 0 {
                let idle_ready: Vec<&str> = case.scenarios.iter().map(|s| s.name.as_str()).filter(|s| first_started.get(s).is_some_and(|i| *i >= n_ev)).collect();
                if !idle_ready.is_empty() {
                    return Some((n_ev, format!("after a completion, at quiescent round {} nothing is in flight although the scenarios {idle_ready:?} are ready and unstarted", q.round)));
                }
            }
            let serial_clear = !serial_blocks(n_ev, q);
            if !parsed || !serial_clear || tripped {
                continue;
            }
            let in_flight = q.in_flight;
            if limit.is_some_and(|k| in_flight >= k) {
                continue;
            }
            let waiting: Vec<&&str> = conc.iter().filter(|s| first_started.get(**s).is_none_or(|i| *i >= n_ev)).collect();
            // only scenarios that do start later are certain to have been ready (fail-fast excluded above)
            let waiting: Vec<&&str> = waiting.into_iter().filter(|s| first_started.contains_key(**s)).collect();
            // A retry *without* a delay is ready the moment its failed attempt has finished: it
            // re-enters the queue like any other scenario and has to get a free slot as well.
            let retry_waiting: Vec<String> = m
                .attempts
                .iter()
                .filter(|a| conc.contains(&a.scenario.as_str()))
                .filter(|a| a.finished.is_some_and(|f| f < n_ev) && attempt_failed_observed(a, log) && a.retries.is_some_and(|r| r.1 > 0))
                .filter(|a| case.sc(&a.scenario).and_then(|s| s.retry).is_some_and(|r| r.1.is_none()))
                .filter(|a| {
                    let next = m.attempts.iter().find(|b| b.scenario == a.scenario && b.retries.map(|r| r.0) == a.retries.map(|r| r.0 + 1));
                    next.is_some_and(|b| b.started.is_some_and(|i| i >= n_ev))
                })
                .map(|a| format!("{}#{}", a.scenario, a.retries.map_or(0, |r| r.0 + 1)))
                .collect();
            if !retry_waiting.is_empty() {
                return Some((
                    n_ev,
                    format!("after a completion, at quiescent round {} only {in_flight} attempts are in flight (limit {limit:?}) although the undelayed retries {retry_waiting:?} of concurrent scenarios are ready and unstarted", q.round),
                ));
            }
            if !waiting.is_empty() {
                return Some((
                    n_ev,
                    format!("after a completion, at quiescent round {} only {in_flight} attempts are in flight (limit {limit:?}) although concurrent scenarios {waiting:?} are ready and unstarted", q.round),
                ));
            }
        }
    None
}

pub fn nt_c06(case: &RCase, log: &RunLog) -> bool {
    let Some(k) = case.effective_conc() else { return false };
    let conc = case.scenarios.iter().filter(|s| !s.serial).count();
    conc > k && log.events.iter().filter(|e| is_sc_finished(e)).count() > 1
}

// ------------------------------------------------------------------------------------------
// C07

/// Signature suffix describing how the serial attempt became ready.
fn c07_context(case: &RCase, a: &Attempt) -> &'static str {
    if a.retries.is_some_and(|r| r.0 > 0) {
        "serial-retry"
    } else if case.lazy {
        "late-delivery"
    } else {
        "first-attempt-eager"
    }
}

pub fn check_c07(case: &RCase, log: &RunLog, m: &Modelled) -> Vec<Violation> {
    let mut out = vec![];
    let serial: HashSet<&str> = case.scenarios.iter().filter(|s| s.serial).map(|s| s.name.as_str()).collect();
    if serial.is_empty() {
        return out;
    }
    // (a) stream: while a serial attempt is open nothing else is, and vice versa
    let mut open: Vec<(String, Option<(usize, usize)>)> = vec![];
    let mut reported: HashSet<String> = HashSet::new();
    for e in &log.events {
        let Some((s, r, ev)) = e.sc() else { continue };
        let id = (s.to_string(), r);
        match ev {
            ScEv::Started => {
                let clash = !open.is_empty() && (serial.contains(s) || open.iter().any(|o| serial.contains(o.0.as_str())));
                if clash {
                    // attribute to the serial attempt involved
                    let ser = if serial.contains(s) { id.clone() } else { open.iter().find(|o| serial.contains(o.0.as_str())).cloned().unwrap() };
                    let att = m.attempts.iter().find(|a| a.scenario == ser.0 && a.retries == ser.1);
                    let ctx = att.map_or("unknown", |a| c07_context(case, a));
                    let sig = format!("C07/overlap/{ctx}");
                    if reported.insert(sig.clone()) {
                        out.push(v(&sig, format!("attempt {id:?} Started at event #{} while {open:?} in flight; serial scenarios: {serial:?}", e.idx)));
                    }
                }
                open.push(id);
            }
            ScEv::Finished => open.retain(|o| *o != id),
            _ => {}
        }
    }
    // (b) H2: a serial attempt must be dispatched alone into an empty runner
    for d in &log.dispatched {
        if d.serial && d.in_flight_before > 0 {
            let att = m.attempts.iter().find(|a| a.scenario == d.scenario && a.retries == d.retries.map(|r| (r.current, r.left)));
            let ctx = att.map_or("unknown", |a| c07_context(case, a));
            let sig = format!("C07/overlap/{ctx}");
            if reported.insert(sig.clone()) {
                out.push(v(&sig, format!("serial attempt {} {:?} dispatched while {} attempts were in flight", d.scenario, d.retries, d.in_flight_before)));
            }
        }
    }
    // (c) callback log: no foreign user code between a serial attempt's first and last callback
    let groups = world_groups(&log.calls);
    for a in m.attempts.iter().filter(|a| serial.contains(a.scenario.as_str())) {
        // find the world id of this attempt through an attributable callback
        let wid = a.callbacks.iter().find_map(|(k, inv)| inv.and_then(|i| log.calls.iter().find(|c| c.phase == Phase::Enter && c.key == *k && c.inv == i)).and_then(|c| c.world));
        let Some(wid) = wid else { continue };
        let Some(g) = groups.get(&wid) else { continue };
        let (lo, hi) = (g.first_seq, g.last_seq);
        for c in &log.calls {
            if c.seq > lo && c.seq < hi && !g.member(c) {
                let ctx = c07_context(case, a);
                let sig = format!("C07/user-code-overlap/{ctx}");
                if reported.insert(sig.clone()) {
                    out.push(v(&sig, format!("callback {}#{} ({:?}) ran between the first and last callback of serial attempt {} {:?}", c.key, c.inv, c.phase, a.scenario, a.retries)));
                }
                break;
            }
        }
    }
    out
}

pub fn nt_c07(case: &RCase, log: &RunLog, m: &Modelled) -> bool {
    let serial: HashSet<&str> = case.scenarios.iter().filter(|s| s.serial).map(|s| s.name.as_str()).collect();
    let nser = serial.len();
    let nconc = case.scenarios.len() - nser;
    if nser == 0 || nconc == 0 {
        return false;
    }
    // a serial scenario retried, or delivered lazily, or >=2 of each kind
    let serial_retry = m.attempts.iter().any(|a| serial.contains(a.scenario.as_str()) && a.retries.is_some_and(|r| r.0 > 0));
    let _ = log;
    serial_retry || case.lazy || (nser >= 2 && nconc >= 2)
}

pub struct Group {
    pub world: u64,
    pub wn_inv: Option<usize>,
    pub first_seq: u64,
    pub last_seq: u64,
    /// Enter entries (excluding WorldNew), in order.
    pub enters: Vec<usize>,
}

impl Group {
    pub fn member(&self, c: &Call) -> bool {
        c.world == Some(self.world) || (c.key == "WorldNew" && Some(c.inv) == self.wn_inv)
    }
}

pub fn world_groups(calls: &[Call]) -> BTreeMap<u64, Group> {
    let mut g: BTreeMap<u64, Group> = BTreeMap::new();
    for c in calls {
        if c.key == "WorldNew" && c.phase == Phase::Exit {
            if let Some(w) = c.world {
                // the Enter of this World::new call
                let enter_seq = calls.iter().find(|x| x.key == "WorldNew" && x.phase == Phase::Enter && x.inv == c.inv).map_or(c.seq, |x| x.seq);
                g.insert(w, Group { world: w, wn_inv: Some(c.inv), first_seq: enter_seq, last_seq: c.seq, enters: vec![] });
            }
        }
    }
    for (i, c) in calls.iter().enumerate() {
        if c.key == "WorldNew" {
            continue;
        }
        if let Some(w) = c.world {
            let e = g.entry(w).or_insert(Group { world: w, wn_inv: None, first_seq: c.seq, last_seq: c.seq, enters: vec![] });
            e.first_seq = e.first_seq.min(c.seq);
            e.last_seq = e.last_seq.max(c.seq);
            if c.phase == Phase::Enter {
                e.enters.push(i);
            }
        }
    }
    g
}

// ------------------------------------------------------------------------------------------
// C08

pub fn check_c08(case: &RCase, log: &RunLog, m: &Modelled) -> Vec<Violation> {
    let mut out = vec![];
    if !case.fail_fast() || log.end != RunEnd::Completed {
        return out;
    }
    let d = delivered(case, log);
    // parser: nothing is ingested after the first error
    let first_err = case.items.iter().position(|i| matches!(i.item, Item::Error(_)));
    match first_err {
        Some(p) => {
            if log.parser_delivered as usize != p + 1 {
                out.push(v("C08/ingest-after-parser-error", format!("first parser error is item #{p}, but the parser was asked for {} items", log.parser_delivered)));
            }
        }
        None => {
            if log.parser_delivered as usize != case.items.len() {
                out.push(v("C08/parser-not-drained", format!("no parser error, yet only {} of {} items were ingested", log.parser_delivered, case.items.len())));
            }
        }
    }
    for e in &log.events {
        if !e.f.is_empty() && !d.features.iter().any(|f| f.name == e.f) {
            out.push(v("C08/ingest-after-parser-error", format!("event for feature {} which follows the first parser error", e.f)));
            break;
        }
    }
    // every started feature / rule still gets its Finished, the run ends with run-Finished
    for vi in check_c03(case, log) {
        out.push(v(&format!("C08/framing/{}", vi.sig.trim_start_matches("C03/")), vi.msg));
    }
    match first_final_failure(m, log) {
        Some((p, ai)) => {
            let failing = &m.attempts[ai];
            let disp_of = |a: &Attempt| log.dispatched.iter().find(|d| d.scenario == a.scenario && d.retries.map(|r| (r.current, r.left)) == a.retries);
            // H3: the moment the main loop observed a final failure; nothing may be dispatched afterwards.
            let mut cut: Option<(u64, &Attempt)> = None;
            for a in m.attempts.iter().filter(|a| a.is_final() && a.finished.is_some() && attempt_failed_observed(a, log)) {
                if let Some(obs) = disp_of(a).and_then(|d| log.observed.iter().find(|o| o.id == d.id)) {
                    if cut.is_none_or(|c| obs.next_batch < c.0) {
                        cut = Some((obs.next_batch, a));
                    }
                }
            }
            match cut {
                None => out.push(v("C08/failure-not-observed", format!("final failure of {} {:?} was never observed by the main loop", failing.scenario, failing.retries))),
                Some((n, a)) => {
                    if let Some(d) = log.dispatched.iter().find(|d| d.batch >= n) {
                        out.push(v(
                            "C08/dispatch-after-failure",
                            format!("attempt {} {:?} was dispatched (batch {}) after the main loop had observed the final failure of {} {:?} (next batch then: {n})", d.scenario, d.retries, d.batch, a.scenario, a.retries),
                        ));
                    }
                }
            }
            // H4: the moment a finally failing attempt queued its notification. The main loop reads
            // every queued notification before it asks for the next batch, so no batch is
            // dispatched from then on - however many other completions are queued ahead of it.
            for a in m.attempts.iter().filter(|a| a.is_final() && a.finished.is_some() && attempt_failed_observed(a, log)) {
                let Some(n) = disp_of(a).and_then(|d| log.notified.iter().find(|o| o.id == d.id)) else { continue };
                if n.retried || !n.failed {
                    continue;
                }
                if let Some(d) = log.dispatched.iter().find(|d| d.batch >= n.next_batch) {
                    out.push(v(
                        "C08/dispatch-after-failure-announced",
                        format!(
                            "attempt {} {:?} was dispatched (batch {}) after {} {:?} had failed finally, emitted its Finished event and announced that to the main loop (next batch then: {})",
                            d.scenario, d.retries, d.batch, a.scenario, a.retries, n.next_batch
                        ),
                    ));
                    break;
                }
            }
            // stream level: attempts that begin after the failure's Finished were dispatched
            // before it was observed, hence together with still running ones: fewer than the limit.
            let late = m.attempts.iter().filter(|a| a.started.is_some_and(|s| s > p)).count();
            if let Some(k) = case.effective_conc() {
                if late >= k && late > 0 {
                    out.push(v("C08/too-many-late-starts", format!("{late} attempts began after the first final failure's Finished (#{p}), limit {k}")));
                }
            }
        }
        None => {
            // no final failure: nothing may be held back
            if first_err.is_none() {
                let started: HashSet<&str> = log.events.iter().filter(|e| is_sc_started(e)).map(|e| e.sc().unwrap().0).collect();
                let missing: Vec<&str> = case.scenarios.iter().map(|s| s.name.as_str()).filter(|s| !started.contains(s)).collect();
                if !missing.is_empty() {
                    out.push(v("C08/stopped-without-final-failure", format!("fail-fast run without any final failure did not run {missing:?}")));
                }
            } else {
                // only scenarios of delivered features
                let started: HashSet<&str> = log.events.iter().filter(|e| is_sc_started(e)).map(|e| e.sc().unwrap().0).collect();
                let missing: Vec<&str> = case.scenarios.iter().filter(|s| d.features.iter().any(|f| f.name == s.feature)).map(|s| s.name.as_str()).filter(|s| !started.contains(s)).collect();
                if !missing.is_empty() {
                    out.push(v("C08/stopped-without-final-failure", format!("fail-fast run without a final scenario failure did not run {missing:?} of the ingested features")));
                }
            }
        }
    }
    out
}

/// Per-scenario outcome summary used by the metamorphic half of C08.
pub fn outcome_summary(log: &RunLog, m: &Modelled) -> BTreeMap<String, Vec<String>> {
    let mut out: BTreeMap<String, Vec<String>> = BTreeMap::new();
    for a in &m.attempts {
        let kinds: Vec<String> = a
            .ev
            .iter()
            .filter_map(|i| log.events[*i].sc().map(|x| x.2))
            .filter_map(|e| match e {
                ScEv::StepPassed { text, .. } => Some(format!("P[{text}]")),
                ScEv::StepSkipped { text, .. } => Some(format!("S[{text}]")),
                ScEv::StepFailed { text, .. } => Some(format!("F[{text}]")),
                ScEv::HookFailed { before, .. } => Some(format!("HF[{before}]")),
                _ => None,
            })
            .collect();
        out.entry(a.scenario.clone()).or_default().push(format!("{:?}:{}", a.retries, kinds.join(",")));
    }
    out
}

pub fn nt_c08(case: &RCase, log: &RunLog, m: &Modelled) -> bool {
    if !case.fail_fast() {
        return false;
    }
    let Some((p, _)) = first_final_failure(m, log) else { return false };
    let started_before: HashSet<&str> = log.events.iter().filter(|e| e.idx < p && is_sc_started(e)).map(|e| e.sc().unwrap().0).collect();
    case.scenarios.iter().filter(|s| !started_before.contains(s.name.as_str())).count() >= 2
}

// ------------------------------------------------------------------------------------------
// C09

pub fn check_c09(case: &RCase, log: &RunLog, m: &Modelled) -> Vec<Violation> {
    let mut out = vec![];
    if log.end != RunEnd::Completed {
        return out;
    }
    let groups = world_groups(&log.calls);
    let calls = &log.calls;
    // World::new call count
    let wn_calls = calls.iter().filter(|c| c.key == "WorldNew" && c.phase == Phase::Enter).count();
    let wn_expected = m.attempts.iter().filter(|a| a.world_new_called).count();
    if m.attempts.iter().all(|a| a.conforms) && wn_calls != wn_expected {
        out.push(v("C09/world-new-count", format!("World::new called {wn_calls} times, the model creates a World in {wn_expected} attempts")));
    }
    let mut seen_worlds: HashMap<u64, (String, Option<(usize, usize)>)> = HashMap::new();
    for a in m.attempts.iter().filter(|a| a.conforms) {
        let name = &a.scenario;
        // locate the attempt's callbacks in the log
        let located: Vec<Option<&Call>> = a.callbacks.iter().map(|(k, inv)| inv.and_then(|i| calls.iter().find(|c| c.phase == Phase::Enter && c.key == *k && c.inv == i))).collect();
        for ((k, inv), c) in a.callbacks.iter().zip(&located) {
            if inv.is_some() && c.is_none() {
                out.push(v("C09/callback-not-invoked", format!("{name} {:?}: the model runs `{k}` (invocation {inv:?}) but the callback log has no such call", a.retries)));
            }
        }
        // after hook: exactly once, last, right world, right reason
        if case.after {
            let key = format!("after:{name}");
            let Some(Some(c)) = located.last() else { continue };
            if c.key != key {
                out.push(v("C09/after-hook-not-last", format!("{name}: last modelled callback is {} not the after hook", c.key)));
                continue;
            }
            if c.world.is_some() != a.world_expected {
                out.push(v("C09/after-hook-world", format!("{name} {:?}: after hook received World={:?}, model says a World {}", a.retries, c.world, if a.world_expected { "exists" } else { "does not exist" })));
            }
            if c.reason != a.reason {
                out.push(v("C09/after-hook-reason", format!("{name} {:?}: after hook received {:?}, the attempt finished because {:?}", a.retries, c.reason, a.reason)));
            }
            let exp_args = format!("{}/{}/{}", case.sc(name).map_or("", |s| s.feature.as_str()), case.sc(name).and_then(|s| s.rule.as_deref()).unwrap_or("-"), name);
            if c.args.as_deref() != Some(exp_args.as_str()) {
                out.push(v("C09/hook-arguments", format!("{name}: after hook called with {:?}, expected {exp_args}", c.args)));
            }
        }
        if case.before {
            if let Some(Some(c)) = located.first() {
                if c.key == format!("before:{name}") {
                    if c.counter != 0 {
                        out.push(v("C09/before-hook-stale-world", format!("{name} {:?}: before hook saw a World already mutated {} times", a.retries, c.counter)));
                    }
                    let exp_args = format!("{}/{}/{}", case.sc(name).map_or("", |s| s.feature.as_str()), case.sc(name).and_then(|s| s.rule.as_deref()).unwrap_or("-"), name);
                    if c.args.as_deref() != Some(exp_args.as_str()) {
                        out.push(v("C09/hook-arguments", format!("{name}: before hook called with {:?}, expected {exp_args}", c.args)));
                    }
                }
            }
        }
        // the attempt's world: all located callbacks with a World share one id
        let ids: BTreeSet<u64> = located.iter().flatten().filter_map(|c| c.world).collect();
        if ids.len() > 1 {
            out.push(v("C09/world-changed", format!("{name} {:?}: callbacks of one attempt saw different World instances {ids:?}", a.retries)));
            continue;
        }
        let Some(wid) = ids.into_iter().next() else {
            if a.world_expected && located.iter().flatten().next().is_some() {
                out.push(v("C09/world-missing", format!("{name} {:?}: model says a World exists, callbacks saw none", a.retries)));
            }
            continue;
        };
        if let Some(prev) = seen_worlds.insert(wid, (name.clone(), a.retries)) {
            out.push(v("C09/world-shared", format!("World #{wid} seen by attempt {prev:?} and by attempt ({name}, {:?})", a.retries)));
        }
        for w in &a.world_ids_in_events {
            if *w != wid {
                out.push(v("C09/world-in-event-differs", format!("{name} {:?}: failure event carries World #{w}, callbacks saw #{wid}", a.retries)));
            }
        }
        let Some(g) = groups.get(&wid) else { continue };
        if g.wn_inv.is_none() {
            out.push(v("C09/world-not-from-new", format!("World #{wid} was never produced by World::new")));
        }
        // the group's Enter sequence must be exactly the modelled callbacks (keys), with counters 0,1,2,..
        let seen: Vec<&Call> = g.enters.iter().map(|i| &calls[*i]).collect();
        let seen_keys: Vec<&str> = seen.iter().map(|c| c.key.as_str()).collect();
        let exp_keys: Vec<&str> = a.callbacks.iter().map(|(k, _)| k.as_str()).filter(|k| !(k.starts_with("after:") && !a.world_expected)).collect();
        if seen_keys != exp_keys {
            out.push(v("C09/world-callback-sequence", format!("{name} {:?}: World #{wid} was seen by {seen_keys:?}, the model runs {exp_keys:?} on the attempt's World", a.retries)));
        }
        // every callback mutates the World once, except one that panics before doing anything
        let mut mutations = 0usize;
        for c in &seen {
            if c.counter as usize != mutations {
                out.push(v("C09/world-state-not-threaded", format!("{name} {:?}: callback `{}` saw mutation counter {} on World #{wid}, expected {mutations}", a.retries, c.key, c.counter)));
                break;
            }
            if c.oc != super::Oc::PanicEager {
                mutations += 1;
            }
        }
    }
    // after-hook call count == number of attempts
    if case.after {
        let after_calls = calls.iter().filter(|c| c.phase == Phase::Enter && c.key.starts_with("after:")).count();
        let n_att = m.attempts.iter().filter(|a| a.started.is_some()).count();
        if after_calls != n_att {
            out.push(v("C09/after-hook-count", format!("after hook invoked {after_calls} times for {n_att} attempts")));
        }
        // reason payload sanity: an after hook never sees StepFailedNotFound from the runner
        if calls.iter().any(|c| c.reason == Some(Reason::StepFailedNotFound)) {
            out.push(v("C09/after-hook-reason", "after hook received StepFailed(NotFound) from the runner".into()));
        }
    }
    // before hook: once in *every* attempt (first attempts and retries alike), unless the
    // attempt's World could not be created (then the hook is reported failed without being called)
    if case.before {
        let mut per: BTreeMap<&str, (usize, usize)> = BTreeMap::new();
        for a in m.attempts.iter().filter(|a| a.started.is_some()) {
            let e = per.entry(a.scenario.as_str()).or_default();
            e.0 += 1;
            e.1 += usize::from(a.world_init_failed);
        }
        for (name, (n_att, n_wfail)) in per {
            let key = format!("before:{name}");
            let n_calls = calls.iter().filter(|c| c.phase == Phase::Enter && c.key == key).count();
            if n_calls + n_wfail != n_att {
                out.push(v("C09/before-hook-count", format!("{name}: {n_att} attempts started ({n_wfail} of them could not create their World), but the before hook was invoked {n_calls} times")));
            }
        }
    }
    if !case.before {
        // without a before hook a World is created only if a step matched
        for g in groups.values() {
            if g.enters.is_empty() {
                // World created but no callback ever saw it: legitimate only if its first user panicked
                // before.. impossible: the step function is entered right after creation.
                out.push(v("C09/world-created-unused", format!("World #{} was created but no step or hook ever received it", g.world)));
            }
        }
    }
    out
}

pub fn nt_c09(case: &RCase, log: &RunLog, m: &Modelled) -> bool {
    (case.before || case.after) && m.attempts.iter().any(|a| a.executed_steps >= 2) && interleaved(log)
}

pub fn interleaved(log: &RunLog) -> bool {
    let mut open = 0;
    for e in &log.events {
        if is_sc_started(e) {
            open += 1;
            if open >= 2 {
                return true;
            }
        } else if is_sc_finished(e) {
            open -= 1;
        }
    }
    false
}

// ------------------------------------------------------------------------------------------
// C10

pub fn check_c10(case: &RCase, log: &RunLog, m: &Modelled) -> Vec<Violation> {
    let mut out = vec![];
    let _ = case;
    if log.end != RunEnd::Completed {
        return out; // escaped panic reported by check_end
    }
    for vi in &m.violations {
        // containment-related clauses of the attempt automaton, re-labelled for C10
        let clause = vi.sig.strip_prefix("C02/").unwrap_or(&vi.sig);
        if matches!(clause, "fault-accounting" | "missing-event" | "finished-missing" | "after-hook-missing" | "step-result" | "before-hook-result" | "after-hook-result" | "step-result-missing") {
            out.push(v(&format!("C10/{clause}"), vi.msg.clone()));
        }
    }
    if log.events.last().map(|e| &e.k) != Some(&EvKind::Finished) {
        out.push(v("C10/run-not-finished", "stream ended without run-Finished".into()));
    }
    if log.probe_during_run != 0 {
        out.push(v("C10/panic-hook-fired", format!("the process panic hook installed before the run was invoked {} times while the run was in progress", log.probe_during_run)));
    }
    if log.hook_restored == Some(false) {
        out.push(v("C10/panic-hook-not-restored", "after the run the panic hook installed before it is not in place".into()));
    }
    out
}

pub fn nt_c10(log: &RunLog) -> bool {
    let mut n = 0;
    let mut nonstr = false;
    for c in &log.calls {
        if c.phase == Phase::Exit {
            if !c.oc.is_pass() {
                n += 1;
                if matches!(c.oc, super::Oc::PanicCustom | super::Oc::PanicI32) {
                    nonstr = true;
                }
            }
            if c.key == "WorldNew" && c.wn != super::WnOc::Ok {
                n += 1;
            }
        }
    }
    n >= 2 && nonstr
}

pub fn delay_of(case: &RCase, name: &str) -> Option<Duration> {
    case.sc(name).and_then(|s| s.retry).and_then(|r| r.1)
}
