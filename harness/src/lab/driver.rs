//! The schedule-owning driver: polls the runner's event stream by hand, releases gates at
//! quiescent points as the schedule dictates, records everything.

use std::{
    any::Any,
    future::Future as _,
    collections::VecDeque,
    panic::{self, AssertUnwindSafe},
    pin::Pin,
    sync::{
        Arc,
        atomic::{AtomicBool, AtomicU64, Ordering},
    },
    task::{Context, Poll, Wake, Waker},
    thread,
    time::{Duration, Instant},
};

use cucumber::{
    Event, Runner as _, ScenarioType,
    event::{self, Cucumber, Hook, HookType, Retries, Scenario, Step, StepError},
    feature::ExpandExamplesError,
    gherkin, parser,
    runner::{self, basic::RetryOptions},
    step, verif_hooks,
};
use futures::{FutureExt as _, Stream, future::LocalBoxFuture};

use super::{
    Gate, Lab, Reason, Tok, W, callback, eager_check,
    case::{Item, RCase},
    decode_info, decode_reason, gate, step_fn, step_fn2, with_lab,
};
use crate::tape::Tape;

pub type RawEv = parser::Result<Event<Cucumber<W>>>;

// ------------------------------------------------------------------------------------------
// decoded events

#[derive(Clone, Debug, PartialEq, Eq)]
pub enum ErrKind {
    NotFound,
    Ambiguous(Vec<(String, Option<u32>)>),
    Panic(Tok),
}

#[derive(Clone, Debug, PartialEq, Eq)]
pub enum ScEv {
    Started,
    Finished,
    HookStarted { before: bool },
    HookPassed { before: bool },
    HookFailed { before: bool, tok: Tok, world: Option<u64> },
    StepStarted { bg: bool, text: String },
    StepPassed { bg: bool, text: String, loc: Option<u32>, cap0: Option<(usize, usize)>, ngroups: usize },
    StepSkipped { bg: bool, text: String },
    StepFailed { bg: bool, text: String, err: ErrKind, world: Option<u64>, loc: Option<u32>, captures: bool },
    Log(String),
}

#[derive(Clone, Debug, PartialEq, Eq)]
pub enum EvKind {
    Started,
    Finished,
    ParsingFinished { features: usize, rules: usize, scenarios: usize, steps: usize, parser_errors: usize },
    ParserError(String),
    FeatureStarted,
    FeatureFinished,
    RuleStarted,
    RuleFinished,
    Sc { s: String, sptr: usize, retries: Option<(usize, usize)>, ev: ScEv },
}

#[derive(Clone, Debug)]
pub struct REv {
    pub idx: usize,
    /// Lab clock at reception.
    pub seq: u64,
    /// Quiescence round in which it was received.
    pub round: usize,
    pub at: Instant,
    /// Feature name / pointer (empty for run-level events).
    pub f: String,
    pub fptr: usize,
    pub r: Option<String>,
    pub rptr: usize,
    pub k: EvKind,
}

impl REv {
    pub fn sc(&self) -> Option<(&str, Option<(usize, usize)>, &ScEv)> {
        match &self.k {
            EvKind::Sc { s, retries, ev, .. } => Some((s.as_str(), *retries, ev)),
            _ => None,
        }
    }
}

fn ptr<T>(s: &event::Source<T>) -> usize {
    let r: &T = s;
    std::ptr::from_ref(r) as usize
}

fn decode_step(bg: bool, s: &gherkin::Step, e: &Step<W>) -> ScEv {
    let text = s.value.clone();
    match e {
        Step::Started => ScEv::StepStarted { bg, text },
        Step::Passed(cap, loc) => ScEv::StepPassed { bg, text, loc: loc.map(|l| l.line), cap0: cap.get(0), ngroups: cap.len() },
        Step::Skipped => ScEv::StepSkipped { bg, text },
        Step::Failed(cap, loc, w, err) => ScEv::StepFailed {
            bg,
            text,
            err: match err {
                StepError::NotFound => ErrKind::NotFound,
                StepError::AmbiguousMatch(a) => ErrKind::Ambiguous(a.possible_matches.iter().map(|(re, l)| (re.as_str().to_string(), l.map(|l| l.line))).collect()),
                StepError::Panic(i) => ErrKind::Panic(decode_info(i)),
            },
            world: w.as_ref().map(|w| w.id),
            loc: loc.map(|l| l.line),
            captures: cap.is_some(),
        },
    }
}

fn decode_sc(e: &event::RetryableScenario<W>) -> (Option<(usize, usize)>, ScEv) {
    let r = e.retries.map(|r| (r.current, r.left));
    let ev = match &e.event {
        Scenario::Started => ScEv::Started,
        Scenario::Finished => ScEv::Finished,
        Scenario::Log(m) => ScEv::Log(m.clone()),
        Scenario::Hook(t, h) => {
            let before = matches!(t, HookType::Before);
            match h {
                Hook::Started => ScEv::HookStarted { before },
                Hook::Passed => ScEv::HookPassed { before },
                Hook::Failed(w, i) => ScEv::HookFailed { before, tok: decode_info(i), world: w.as_ref().map(|w| w.id) },
            }
        }
        Scenario::Background(s, e) => decode_step(true, s, e),
        Scenario::Step(s, e) => decode_step(false, s, e),
    };
    (r, ev)
}

pub fn decode(e: &RawEv, idx: usize, seq: u64, round: usize) -> REv {
    let at = Instant::now();
    let mk = |f: String, fptr, r: Option<String>, rptr, k| REv { idx, seq, round, at, f, fptr, r, rptr, k };
    match e {
        Err(err) => {
            let name = match err {
                parser::Error::ExampleExpansion(x) => x.name.clone(),
                parser::Error::Parsing(p) => format!("parsing:{p}"),
            };
            mk(String::new(), 0, None, 0, EvKind::ParserError(name))
        }
        Ok(ev) => match &ev.value {
            Cucumber::Started => mk(String::new(), 0, None, 0, EvKind::Started),
            Cucumber::Finished => mk(String::new(), 0, None, 0, EvKind::Finished),
            Cucumber::ParsingFinished { features, rules, scenarios, steps, parser_errors } => mk(
                String::new(),
                0,
                None,
                0,
                EvKind::ParsingFinished { features: *features, rules: *rules, scenarios: *scenarios, steps: *steps, parser_errors: *parser_errors },
            ),
            Cucumber::Feature(f, fe) => {
                let fp = ptr(f);
                match fe {
                    event::Feature::Started => mk(f.name.clone(), fp, None, 0, EvKind::FeatureStarted),
                    event::Feature::Finished => mk(f.name.clone(), fp, None, 0, EvKind::FeatureFinished),
                    event::Feature::Scenario(s, e) => {
                        let (retries, ev) = decode_sc(e);
                        mk(f.name.clone(), fp, None, 0, EvKind::Sc { s: s.name.clone(), sptr: ptr(s), retries, ev })
                    }
                    event::Feature::Rule(r, re) => {
                        let rp = ptr(r);
                        match re {
                            event::Rule::Started => mk(f.name.clone(), fp, Some(r.name.clone()), rp, EvKind::RuleStarted),
                            event::Rule::Finished => mk(f.name.clone(), fp, Some(r.name.clone()), rp, EvKind::RuleFinished),
                            event::Rule::Scenario(s, e) => {
                                let (retries, ev) = decode_sc(e);
                                mk(f.name.clone(), fp, Some(r.name.clone()), rp, EvKind::Sc { s: s.name.clone(), sptr: ptr(s), retries, ev })
                            }
                        }
                    }
                }
            }
        },
    }
}

// ------------------------------------------------------------------------------------------
// parser stream

pub struct LabParser {
    items: VecDeque<(usize, Item, usize)>,
    end_gates: usize,
    cur: Option<Gate>,
    delivered: Arc<AtomicU64>,
    /// `Ready(None)` has been returned. A `Stream` may do anything when polled after its end; this
    /// one is strict: it records the poll and blocks forever (never wakes its task).
    ended: bool,
}

impl Stream for LabParser {
    type Item = parser::Result<gherkin::Feature>;

    fn poll_next(mut self: Pin<&mut Self>, cx: &mut Context<'_>) -> Poll<Option<Self::Item>> {
        if self.ended {
            with_lab(|l| l.parser_polled_after_end += 1);
            return Poll::Pending;
        }
        loop {
            let (gates_left, label) = match self.items.front() {
                Some((g, _, i)) => (*g, format!("parser:item{i}")),
                None => (self.end_gates, "parser:end".to_string()),
            };
            if gates_left > 0 {
                if self.cur.is_none() {
                    self.cur = Some(gate(label));
                }
                let g = self.cur.as_mut().unwrap();
                match Pin::new(g).poll(cx) {
                    Poll::Pending => return Poll::Pending,
                    Poll::Ready(()) => {
                        self.cur = None;
                        match self.items.front_mut() {
                            Some((g, _, _)) => *g -= 1,
                            None => self.end_gates -= 1,
                        }
                    }
                }
                continue;
            }
            if self.items.is_empty() {
                self.ended = true;
            }
            return Poll::Ready(self.items.pop_front().map(|(_, item, _)| {
                self.delivered.fetch_add(1, Ordering::SeqCst);
                with_lab(|l| {
                    l.activity += 1;
                    l.tick();
                });
                match item {
                    Item::Feature(f) => Ok(f),
                    Item::Error(name) => Err(parser::Error::from(ExpandExamplesError {
                        pos: gherkin::LineCol { line: 1, col: 1 },
                        name,
                        path: None,
                    })),
                }
            }));
        }
    }
}

// ------------------------------------------------------------------------------------------
// schedule

pub enum Schedule<'a> {
    Tape(&'a mut Tape),
    /// Fixed prefix of choices, then 0 (FIFO).
    Fixed(Vec<usize>, usize),
}

impl Schedule<'_> {
    fn pick(&mut self, n: usize) -> usize {
        match self {
            Schedule::Tape(t) => t.pick(n),
            Schedule::Fixed(v, i) => {
                let c = v.get(*i).copied().unwrap_or(0).min(n.saturating_sub(1));
                *i += 1;
                c
            }
        }
    }
}

// ------------------------------------------------------------------------------------------
// run

#[derive(Clone, Debug, PartialEq, Eq)]
pub enum RunEnd {
    /// Stream returned `None`.
    Completed,
    /// H1 fired: more than the limit of idle turns inside one poll.
    IdleSpin(u64),
    /// Too many consecutive polls / self-wakes without any observable progress.
    NoProgress(String),
    /// Runner returned `Pending` with nothing left that could ever wake it.
    Stalled(String),
    /// A panic other than H1 escaped from `poll_next`.
    EscapedPanic(String),
    /// Timer wake did not arrive in time (wall clock; inconclusive).
    TimerTimeout,
}

#[derive(Clone, Debug)]
pub struct Quiescent {
    pub round: usize,
    pub seq: u64,
    pub at: Instant,
    pub in_flight: usize,
    pub pending_labels: Vec<String>,
    /// Label of the released gate, "sleep", or "wait".
    pub action: String,
    pub branching: usize,
    pub choice: usize,
}

pub struct RunLog {
    pub events: Vec<REv>,
    pub raw: Vec<RawEv>,
    pub calls: Vec<super::Call>,
    pub dispatched: Vec<verif_hooks::Dispatched>,
    pub observed: Vec<verif_hooks::FinishObserved>,
    /// H4: completions at the moment the attempt queued its notification for the main loop.
    pub notified: Vec<verif_hooks::FinishObserved>,
    pub quiescent: Vec<Quiescent>,
    pub polls: usize,
    pub end: RunEnd,
    /// Polls of the stream after it returned `None` that did not return `None` again.
    pub probe_during_run: u64,
    pub hook_restored: Option<bool>,
    pub max_idle_turns_in_poll: u64,
    pub parser_delivered: u64,
    pub post_end_polls_ok: bool,
    /// Max number of delayed retries outstanding at a quiescent point while gates were pending.
    pub max_delayed_outstanding: usize,
    /// First quiescent point at which a gate released earlier had still not been passed: the
    /// future waiting on it was woken but the runner went quiet without polling it.
    pub unresumed: Option<Unresumed>,
    /// Polls of the parser stream after it had returned `None`.
    pub parser_polled_after_end: u64,
    /// Rounds in which nothing but a retry-delay timer could make progress (no gate pending, a
    /// delayed retry outstanding) and the runner kept waking itself instead of waiting for the timer.
    pub busy_wait_during_delay: u64,
}

#[derive(Clone, Debug)]
pub struct Unresumed {
    pub round: usize,
    pub labels: Vec<String>,
    /// scenarios whose delayed retry was outstanding at that point
    pub delayed: Vec<String>,
    pub in_flight: usize,
}

static PROBE: AtomicU64 = AtomicU64::new(0);
/// Every installed probe hook has its own generation; `PROBE_LAST_GEN` is the generation of the
/// instance that handled the last panic (tells *which* hook is in place after a run).
static PROBE_GEN: AtomicU64 = AtomicU64::new(0);
static PROBE_LAST_GEN: AtomicU64 = AtomicU64::new(0);
struct ProbeMarker;

pub fn install_probe_hook() {
    let generation = PROBE_GEN.fetch_add(1, Ordering::SeqCst) + 1;
    panic::set_hook(Box::new(move |info| {
        PROBE.fetch_add(1, Ordering::SeqCst);
        PROBE_LAST_GEN.store(generation, Ordering::SeqCst);
        if info.payload().downcast_ref::<ProbeMarker>().is_none() && std::env::var_os("VERIF_DEBUG").is_some() {
            eprintln!("[vlab] panic outside a run: {info}");
        }
    }));
}

struct Flag(AtomicBool, thread::Thread);

impl Wake for Flag {
    fn wake(self: Arc<Self>) {
        self.0.store(true, Ordering::SeqCst);
        self.1.unpark();
    }
}

pub fn custom_which(_: &gherkin::Feature, _: Option<&gherkin::Rule>, s: &gherkin::Scenario) -> ScenarioType {
    if with_lab(|l| l.custom_serial.contains(&s.name)) { ScenarioType::Serial } else { ScenarioType::Concurrent }
}

pub fn before_hook<'a>(f: &'a gherkin::Feature, r: Option<&'a gherkin::Rule>, s: &'a gherkin::Scenario, w: &'a mut W) -> LocalBoxFuture<'a, ()> {
    let args = format!("{}/{}/{}", f.name, r.map_or("-", |r| r.name.as_str()), s.name);
    let key = format!("before:{}", s.name);
    eager_check(&key, Some(w), None, Some(args.clone()));
    callback(key, Some(w), None, Some(args)).boxed_local()
}

pub fn after_hook<'a>(
    f: &'a gherkin::Feature,
    r: Option<&'a gherkin::Rule>,
    s: &'a gherkin::Scenario,
    ev: &'a event::ScenarioFinished,
    w: Option<&'a mut W>,
) -> LocalBoxFuture<'a, ()> {
    let args = format!("{}/{}/{}", f.name, r.map_or("-", |r| r.name.as_str()), s.name);
    let reason: Reason = decode_reason(ev);
    let key = format!("after:{}", s.name);
    eager_check(&key, w.as_deref(), Some(reason.clone()), Some(args.clone()));
    callback(key, w, Some(reason), Some(args)).boxed_local()
}

pub const AMB_LOC_1: step::Location = step::Location { path: "vlab/amb.rs", line: 11, column: 1 };
pub const AMB_LOC_2: step::Location = step::Location { path: "vlab/amb.rs", line: 22, column: 1 };
pub const OK_LOC: step::Location = step::Location { path: "vlab/ok.rs", line: 7, column: 1 };
pub const RE_OK: &str = "^(?:ok|amb) .*$";
pub const RE_AMB: &str = "^amb .*$";
/// `dup` steps are ambiguous between two definitions with the *same* regex text (copy-pasted
/// attribute) that differ only in their location.
pub const RE_DUP: &str = "^dup .*$";
pub const DUP_LOC_1: step::Location = step::Location { path: "vlab/dup.rs", line: 5, column: 1 };
pub const DUP_LOC_2: step::Location = step::Location { path: "vlab/dup_copy.rs", line: 6, column: 1 };

fn collection() -> step::Collection<W> {
    let re_ok = regex::Regex::new(RE_OK).unwrap();
    let re_amb = regex::Regex::new(RE_AMB).unwrap();
    let coll = step::Collection::<W>::new()
        .given(Some(OK_LOC), re_ok.clone(), step_fn)
        .when(Some(OK_LOC), re_ok.clone(), step_fn)
        .then(Some(OK_LOC), re_ok, step_fn)
        .given(Some(AMB_LOC_2), re_amb.clone(), step_fn2)
        .when(Some(AMB_LOC_2), re_amb.clone(), step_fn2)
        .then(Some(AMB_LOC_2), re_amb, step_fn2);
    // `thn` steps: defined for `Then` only (same line as the generic definition, another file)
    let coll = coll.then(Some(step::Location { path: "vlab/then_only.rs", line: OK_LOC.line, column: 1 }), regex::Regex::new("^thn .*$").unwrap(), step_fn);
    let re_dup = regex::Regex::new(RE_DUP).unwrap();
    coll.given(Some(DUP_LOC_1), re_dup.clone(), step_fn2)
        .given(Some(DUP_LOC_2), re_dup.clone(), step_fn2)
        .when(Some(DUP_LOC_1), re_dup.clone(), step_fn2)
        .when(Some(DUP_LOC_2), re_dup.clone(), step_fn2)
        .then(Some(DUP_LOC_1), re_dup.clone(), step_fn2)
        .then(Some(DUP_LOC_2), re_dup, step_fn2)
}

/// One builder call. The same list configures a `runner::Basic` and the `Cucumber` facade (whose
/// methods of the same names forward to the runner and rebuild the facade around it).
#[derive(Clone, Copy, Debug, PartialEq, Eq)]
pub enum Op {
    Steps,
    MaxConc,
    FailFast,
    Retries,
    RetryAfter,
    RetryFilter,
    RetryOptions,
    Which,
    Before,
    After,
    /// facade only: `with_cli`
    Cli,
    /// facade only: `with_parser` (the facade is created around a decoy)
    Parser,
    /// facade only: `with_writer` (the facade is created around a decoy)
    Writer,
}

fn case_hash(case: &RCase) -> u64 {
    crate::tape::hash_str(&case.describe().to_string())
}

/// Whether this case is run through the `Cucumber` facade (`Cucumber::custom(..).run(..)`) instead
/// of `Runner::run` directly.
pub fn via_facade(case: &RCase) -> bool {
    case_hash(case) % 3 == 0
}

/// The builder calls of this case in the order they are made. The builder methods commute (each
/// sets its own field; those that change a type parameter rebuild the value around the others), so
/// three quarters of the cases call them in a case-dependent permutation.
pub fn builder_ops(case: &RCase, facade: bool) -> Vec<Op> {
    let mut ops = vec![Op::Steps];
    if case.conc_builder_set {
        ops.push(Op::MaxConc);
    }
    if case.fail_fast_builder {
        ops.push(Op::FailFast);
    }
    ops.extend([Op::Retries, Op::RetryAfter, Op::RetryFilter]);
    if case.retry_closure.is_some() {
        ops.push(Op::RetryOptions);
    }
    if case.custom_classifier {
        ops.push(Op::Which);
    }
    if case.before {
        ops.push(Op::Before);
    }
    if case.after {
        ops.push(Op::After);
    }
    if facade {
        ops.extend([Op::Cli, Op::Parser, Op::Writer]);
    }
    let mut h = case_hash(case) / 3;
    if h % 4 != 0 {
        h /= 4;
        for i in (1..ops.len()).rev() {
            h = h.wrapping_mul(6364136223846793005).wrapping_add(1442695040888963407);
            ops.swap(i, ((h >> 33) as usize) % (i + 1));
        }
    }
    // `with_parser` / `with_writer` change the CLI type and so discard the options by design:
    // `with_cli` is the last of the three
    if let Some(c) = ops.iter().position(|o| *o == Op::Cli) {
        let last = ops.iter().rposition(|o| matches!(o, Op::Parser | Op::Writer)).unwrap_or(c);
        if last > c {
            ops.swap(c, last);
        }
    }
    ops
}

/// A limit of 64 that cannot bind (fewer scenarios than that) is, in a quarter of the cases,
/// written as an astronomically large one instead - "no limit in practice", as a user passing
/// `usize::MAX` means it. The behaviour the oracles expect is the same.
pub fn written_limit(case: &RCase, v: Option<usize>) -> Option<usize> {
    match v {
        Some(64) if case.scenarios.len() < 60 && case_hash(case) % 4 == 1 => Some(usize::MAX / 2 + case.scenarios.len()),
        other => other,
    }
}

macro_rules! apply_op {
    ($r:expr, $case:expr, $op:expr, $cli:expr) => {
        match $op {
            Op::Steps => $r.steps(collection()),
            Op::MaxConc => $r.max_concurrent_scenarios(written_limit($case, $case.conc_builder)),
            Op::FailFast => $r.fail_fast(),
            Op::Retries => $r.retries($case.retry_builder.retry),
            Op::RetryAfter => $r.retry_after($case.retry_builder.after),
            Op::RetryFilter => $r.retry_filter($case.retry_builder.filter.clone()),
            Op::RetryOptions => {
                let b = $case.retry_closure.clone().unwrap_or_default();
                $r.retry_options(move |_, _, s, _| b.get(&s.name).map(|(n, d)| RetryOptions { retries: Retries::initial(*n), after: *d }))
            }
            Op::Which => $r.which_scenario(custom_which as runner::basic::WhichScenarioFn),
            Op::Before => $r.before(before_hook as runner::basic::BeforeHookFn<W>),
            Op::After => $r.after(after_hook as runner::basic::AfterHookFn<W>),
            Op::Cli | Op::Parser | Op::Writer => $cli($r, $op),
        }
    };
}

pub fn build_runner(case: &RCase) -> runner::Basic<W> {
    let mut r = runner::Basic::<W>::default();
    for op in builder_ops(case, false) {
        r = apply_op!(r, case, op, |r, _| r);
    }
    // A configured runner may be cloned before it is run (a base runner shared by several runs):
    // every other case runs the clone.
    if case.scenarios.len() % 2 == 1 { r.clone() } else { r }
}

/// (`Clone`, so that the facade is: the stream goes to whichever copy parses first - the one run.)
#[derive(Clone)]
pub struct PW(pub std::rc::Rc<std::cell::RefCell<Option<LabParser>>>);

impl cucumber::Parser<()> for PW {
    type Cli = cucumber::cli::Empty;
    type Output = LabParser;

    fn parse(self, (): (), _: cucumber::cli::Empty) -> LabParser {
        self.0.borrow_mut().take().expect("parsed once")
    }
}

#[derive(Clone, Default)]
pub struct QW(pub std::rc::Rc<std::cell::RefCell<VecDeque<RawEv>>>);

impl cucumber::Writer<W> for QW {
    type Cli = cucumber::cli::Empty;

    async fn handle_event(&mut self, e: RawEv, _: &cucumber::cli::Empty) {
        self.0.borrow_mut().push_back(e);
    }
}

impl cucumber::writer::Normalized for QW {}

type Facade = cucumber::Cucumber<W, PW, (), runner::Basic<W>, QW, cucumber::cli::Empty>;

/// The same configuration made through the `Cucumber` facade: an unconfigured runner inside, every
/// builder call (and `with_cli`) made on the facade.
pub fn build_facade(case: &RCase, parser: LabParser, queue: QW) -> Facade {
    use cucumber::cli;
    let cell = |p: Option<LabParser>| PW(std::rc::Rc::new(std::cell::RefCell::new(p)));
    let mut real_parser = Some(parser);
    let mut c: Facade = cucumber::Cucumber::custom(cell(None), runner::Basic::<W>::default(), QW::default());
    for op in builder_ops(case, true) {
        let opts = || cli::Opts::<cli::Empty, runner::basic::Cli, cli::Empty, cli::Empty> { re_filter: None, tags_filter: None, parser: cli::Empty, runner: build_cli(case), writer: cli::Empty, custom: cli::Empty };
        c = apply_op!(c, case, op, |c: Facade, op: Op| -> Facade {
            match op {
                Op::Parser => c.with_parser::<PW, ()>(cell(real_parser.take())),
                Op::Writer => c.with_writer(queue.clone()),
                _ => c.with_cli(opts()),
            }
        });
    }
    // like the runner, a configured `Cucumber` may be cloned before it is run
    if case.scenarios.len() % 2 == 1 { c.clone() } else { c }
}

pub fn build_cli(case: &RCase) -> runner::basic::Cli {
    let mut cli = runner::basic::Cli::default();
    cli.concurrency = written_limit(case, case.conc_cli);
    cli.fail_fast = case.fail_fast_cli;
    cli.retry = case.retry_cli.retry;
    cli.retry_after = case.retry_cli.after;
    cli.retry_tag_filter = case.retry_cli.filter.clone();
    // Every other case goes the way a test binary does: the options are rendered as argv and parsed
    // by the crate's own `cli::Opts` (absent options stay absent from argv).
    if case.items.len() % 2 == 0 {
        use clap::Parser as _;
        let mut argv: Vec<String> = vec!["vlab".into()];
        if let Some(c) = written_limit(case, case.conc_cli) {
            argv.extend(["--concurrency".into(), c.to_string()]);
        }
        if case.fail_fast_cli {
            argv.push("--fail-fast".into());
        }
        if let Some(r) = case.retry_cli.retry {
            argv.extend(["--retry".into(), r.to_string()]);
        }
        if let Some(a) = case.retry_cli.after {
            argv.extend(["--retry-after".into(), format!("{}ms", a.as_millis())]);
        }
        if let Some(f) = &case.retry_cli.filter {
            argv.extend(["--retry-tag-filter".into(), crate::refmodel::render_tagexpr(f)]);
        }
        if let Ok(o) = cucumber::cli::Opts::<cucumber::cli::Empty, runner::basic::Cli, cucumber::cli::Empty>::try_parse_from(&argv) {
            return o.runner;
        }
    }
    cli
}

fn payload_string(p: &(dyn Any + Send)) -> String {
    if let Some(s) = p.downcast_ref::<String>() {
        s.clone()
    } else if let Some(s) = p.downcast_ref::<&str>() {
        (*s).to_string()
    } else {
        "<non-string payload>".into()
    }
}

pub const IDLE_LIMIT: u64 = 10_000;
pub const NO_PROGRESS_POLLS: usize = 50_000;
pub const QUIESCE_POLLS: usize = 16;

/// Resets the lab for `case` and returns its parser stream plus the counter of delivered items.
pub fn prepare(case: &RCase) -> (LabParser, Arc<AtomicU64>) {
    with_lab(|l| {
        let log_hook = l.log_hook;
        let span_hook = l.span_hook;
        let span_release_hook = l.span_release_hook;
        let unattributed_log_hook = l.unattributed_log_hook;
        *l = Lab::default();
        l.log_hook = log_hook;
        l.span_hook = span_hook;
        l.span_release_hook = span_release_hook;
        l.unattributed_log_hook = unattributed_log_hook;
        l.plan = case.plan.clone();
        l.wn_plan = case.wn_plan.clone();
        if case.custom_classifier {
            l.custom_serial = case.scenarios.iter().filter(|s| s.serial).map(|s| s.name.clone()).collect();
        }
    });
    let _ = verif_hooks::take_dispatched();
    let _ = verif_hooks::take_observed();
    let _ = verif_hooks::take_notified();
    verif_hooks::set_idle_limit(IDLE_LIMIT);
    let _ = verif_hooks::reset_idle_turns();
    install_probe_hook();
    let delivered = Arc::new(AtomicU64::new(0));
    let parser = LabParser {
        items: case.items.iter().enumerate().map(|(i, it)| (if case.lazy { it.gates } else { 0 }, it.item.clone(), i)).collect(),
        end_gates: if case.lazy { case.end_gates } else { 0 },
        cur: None,
        delivered: Arc::clone(&delivered),
        ended: false,
    };
    (parser, delivered)
}

pub fn run_case(case: &RCase, sched: &mut Schedule<'_>) -> RunLog {
    let (parser, delivered) = prepare(case);
    if via_facade(case) {
        return run_case_facade(case, sched, parser, &delivered);
    }
    let runner = build_runner(case);
    // every other case keeps another handle to the configured runner alive while this one runs
    let _spare = (case_hash(case) % 2 == 0).then(|| runner.clone());
    let mut stream = runner.run(parser, build_cli(case));
    // `Runner::run` only describes the run. The process panic hook "installed before the run" is
    // the one in place when the stream is first polled: every other case installs a fresh hook
    // between the two moments.
    if case.plan.len() % 2 == 0 {
        install_probe_hook();
    }
    run_with(case, sched, &mut |cx| stream.as_mut().poll_next(cx), &delivered, QUIESCE_POLLS)
}

/// The run as a user of the crate makes it: `Cucumber::custom(parser, runner, writer)`, configured
/// through the facade's own builder methods, `run()` polled by hand; the events are what the
/// writer receives.
fn run_case_facade(case: &RCase, sched: &mut Schedule<'_>, parser: LabParser, delivered: &Arc<AtomicU64>) -> RunLog {
    let queue = QW::default();
    let q = queue.0.clone();
    let facade = build_facade(case, parser, queue);
    let _spare = (case_hash(case) % 2 == 0).then(|| facade.clone());
    let mut fut = Box::pin(facade.run(()));
    if case.plan.len() % 2 == 0 {
        install_probe_hook();
    }
    let mut done = false;
    let mut poll = |cx: &mut Context<'_>| -> Poll<Option<RawEv>> {
        if let Some(e) = q.borrow_mut().pop_front() {
            return Poll::Ready(Some(e));
        }
        if done {
            return Poll::Ready(None);
        }
        match fut.as_mut().poll(cx) {
            Poll::Ready(_) => {
                done = true;
                Poll::Ready(q.borrow_mut().pop_front())
            }
            Poll::Pending => match q.borrow_mut().pop_front() {
                Some(e) => Poll::Ready(Some(e)),
                None => Poll::Pending,
            },
        }
    };
    run_with(case, sched, &mut poll, delivered, QUIESCE_POLLS)
}

/// The driver loop over any source of events (`poll` = the stream's `poll_next`).
pub fn run_with(case: &RCase, sched: &mut Schedule<'_>, poll: &mut dyn FnMut(&mut Context<'_>) -> Poll<Option<RawEv>>, delivered: &Arc<AtomicU64>, quiesce_polls: usize) -> RunLog {
    let probe0 = PROBE.load(Ordering::SeqCst);
    let gen_at_start = PROBE_GEN.load(Ordering::SeqCst);

    let flag = Arc::new(Flag(AtomicBool::new(false), thread::current()));
    let waker = Waker::from(Arc::clone(&flag));
    let mut cx = Context::from_waker(&waker);

    let mut events: Vec<REv> = vec![];
    let mut raw: Vec<RawEv> = vec![];
    let mut quiescent: Vec<Quiescent> = vec![];
    let mut polls = 0usize;
    let mut round = 0usize;
    let mut max_idle = 0u64;
    let mut in_flight: i64 = 0;
    // scenarios with a delayed retry outstanding (failed, left > 0, delay configured, not yet restarted)
    let mut delayed_outstanding: Vec<String> = vec![];
    let mut sleeps_in_epoch = 0usize;
    let mut max_delayed_outstanding = 0usize;
    let max_delay = case.max_delay();
    let mut idle_polls = 0usize;
    let mut last_activity = 0u64;
    let mut total_idle_polls = 0usize;
    let mut busy = false;
    let mut wait_started: Option<Instant> = None;
    let mut unresumed: Option<Unresumed> = None;
    let mut busy_wait_during_delay = 0u64;

    let end = 'outer: loop {
        // ---- poll until quiescent
        loop {
            flag.0.store(false, Ordering::SeqCst);
            polls += 1;
            let res = panic::catch_unwind(AssertUnwindSafe(|| poll(&mut cx)));
            max_idle = max_idle.max(verif_hooks::reset_idle_turns());
            let act = with_lab(|l| l.activity);
            match res {
                Err(p) => {
                    if let Some(s) = p.downcast_ref::<verif_hooks::IdleSpin>() {
                        break 'outer RunEnd::IdleSpin(s.0);
                    }
                    break 'outer RunEnd::EscapedPanic(payload_string(&*p));
                }
                Ok(Poll::Ready(Some(e))) => {
                    idle_polls = 0;
                    wait_started = None;
                    let seq = with_lab(Lab::tick);
                    // Every other event is looked at through a `Clone` of what the stream delivered:
                    // that is what `writer::Tee` hands to its left writer, and what any consumer
                    // storing events keeps.
                    let e = if events.len() % 2 == 1 { e.clone() } else { e };
                    let d = decode(&e, events.len(), seq, round);
                    if let Some((s, retries, ev)) = d.sc() {
                        match ev {
                            ScEv::Started => {
                                in_flight += 1;
                                if let Some(i) = delayed_outstanding.iter().position(|x| x == s) {
                                    delayed_outstanding.remove(i);
                                }
                            }
                            ScEv::Finished => {
                                in_flight -= 1;
                                // failed with retries left and a delay?
                                let left = retries.map_or(0, |r| r.1);
                                let has_delay = case.sc(s).and_then(|i| i.retry).and_then(|r| r.1).is_some();
                                if left > 0 && has_delay {
                                    let failed = events.iter().rev().take_while(|e| !matches!(e.sc(), Some((n, r, ScEv::Started)) if n == s && r == retries)).any(|e| {
                                        matches!(e.sc(), Some((n, r, ScEv::StepFailed { .. } | ScEv::HookFailed { .. })) if n == s && r == retries)
                                    });
                                    if failed {
                                        delayed_outstanding.push(s.to_string());
                                        sleeps_in_epoch = 0;
                                    }
                                }
                            }
                            _ => {}
                        }
                    }
                    events.push(d);
                    raw.push(e);
                }
                Ok(Poll::Ready(None)) => break 'outer RunEnd::Completed,
                Ok(Poll::Pending) => {
                    if act != last_activity {
                        idle_polls = 0;
                    } else {
                        idle_polls += 1;
                    }
                    last_activity = act;
                    total_idle_polls += 1;
                    if total_idle_polls > NO_PROGRESS_POLLS * 40 {
                        break 'outer RunEnd::NoProgress(format!("{total_idle_polls} polls returned Pending in total; the run does not terminate"));
                    }
                    // The runner wakes itself after every cooperative yield. It is quiescent when
                    // it returned `Pending` without asking to be polled again, or when it keeps
                    // asking but QUIESCE_POLLS consecutive polls brought no event, no callback
                    // activity and no gate activity (busy-waiting for the parser).
                    if flag.0.load(Ordering::SeqCst) && idle_polls < quiesce_polls {
                        continue;
                    }
                    busy = flag.0.load(Ordering::SeqCst);
                    break;
                }
            }
        }
        // ---- quiescent point
        round += 1;
        if unresumed.is_none() {
            let mut labels = with_lab(|l| l.released.iter().map(|id| l.released_labels.get(id).cloned().unwrap_or_default()).collect::<Vec<_>>());
            if !labels.is_empty() {
                labels.sort();
                unresumed = Some(Unresumed { round, labels, delayed: delayed_outstanding.clone(), in_flight: in_flight.max(0) as usize });
            }
        }
        let (npend, labels) = with_lab(|l| (l.pending.len(), l.pending.iter().map(|p| p.label.clone()).collect::<Vec<_>>()));
        if npend > 0 {
            max_delayed_outstanding = max_delayed_outstanding.max(delayed_outstanding.len());
        }
        // While a delayed retry is outstanding the schedule may also let real time pass: a short
        // nap (lands between two deadlines) or a long one (past every deadline).
        let extra = if !delayed_outstanding.is_empty() && npend > 0 && sleeps_in_epoch < 6 { 2 } else { 0 };
        let seq = with_lab(Lab::tick);
        if npend == 0 {
            // Only an external wake-up (retry delay timer thread) can make progress now.
            if wait_started.is_none() {
                quiescent.push(Quiescent { round, seq, at: Instant::now(), in_flight: in_flight.max(0) as usize, pending_labels: labels, action: "wait".into(), branching: 0, choice: 0 });
            }
            if !case.has_delay() {
                break 'outer RunEnd::Stalled(format!(
                    "stream returned Pending with no gate pending and no timer possible{}",
                    if busy { " (it keeps waking itself without making progress)" } else { " and no wake-up requested" }
                ));
            }
            // A retry waiting out its delay (1..5 ms) is woken by the runner's timer thread: wait for
            // it generously. With no delayed retry outstanding nothing can wake the runner any more;
            // half a second without progress is then reported as a stall, not as a slow timer.
            let t0 = *wait_started.get_or_insert_with(Instant::now);
            let limit = if delayed_outstanding.is_empty() { Duration::from_millis(500) } else { Duration::from_secs(5) };
            let give_up = |events: &Vec<REv>| {
                if delayed_outstanding.is_empty() {
                    RunEnd::Stalled(format!(
                        "stream returned Pending with no gate pending and no retry waiting for its delay{}; {} events so far",
                        if busy { " (it keeps waking itself without making progress)" } else { " and no wake-up requested" },
                        events.len()
                    ))
                } else {
                    RunEnd::TimerTimeout
                }
            };
            if t0.elapsed() > limit {
                break 'outer give_up(&events);
            }
            if busy {
                if !delayed_outstanding.is_empty() {
                    busy_wait_during_delay += 1;
                }
                thread::sleep(Duration::from_micros(200));
            } else {
                let dl = t0 + limit;
                while !flag.0.load(Ordering::SeqCst) {
                    let now = Instant::now();
                    if now >= dl {
                        break 'outer give_up(&events);
                    }
                    thread::park_timeout(dl - now);
                }
            }
            continue;
        }
        wait_started = None;
        let raw_choice = sched.pick(npend + extra);
        // With two or more delayed retries outstanding the short nap is the *first* alternative
        // (so that simple schedules land between two deadlines); otherwise naps come last.
        let nap_first = extra > 0 && delayed_outstanding.len() >= 2;
        let (choice, nap): (usize, Option<bool>) = if nap_first {
            match raw_choice {
                0 => (0, Some(false)),
                c if c == npend + 1 => (0, Some(true)),
                c => (c - 1, None),
            }
        } else if raw_choice >= npend {
            (0, Some(raw_choice == npend + 1))
        } else {
            (raw_choice, None)
        };
        if let Some(long) = nap {
            quiescent.push(Quiescent { round, seq, at: Instant::now(), in_flight: in_flight.max(0) as usize, pending_labels: labels, action: if long { "sleep-long".into() } else { "sleep-short".into() }, branching: npend + extra, choice: raw_choice });
            thread::sleep(if long { max_delay + Duration::from_millis(2) } else { Duration::from_millis(1) });
            sleeps_in_epoch += if long { 6 } else { 1 };
            continue;
        }
        let (w, label, dropped) = with_lab(|l| {
            let p = l.pending.remove(choice);
            l.activity += 1;
            if p.label.starts_with("span:") {
                // pseudo-gate: releasing it drops the object a callback left alive (outside the borrow)
                let i = l.held.iter().position(|(id, ..)| *id == p.id);
                let obj = i.map(|i| {
                    let (_, o, tok) = l.held.remove(i);
                    (o, tok, l.span_release_hook)
                });
                (p.waker, p.label, obj)
            } else {
                l.released.insert(p.id);
                l.released_labels.insert(p.id, p.label.clone());
                (p.waker, p.label, None)
            }
        });
        if let Some((obj, tok, hook)) = dropped {
            if let Some(h) = hook {
                h(obj.as_ref(), &tok);
            }
            drop(obj);
        }
        quiescent.push(Quiescent { round, seq, at: Instant::now(), in_flight: in_flight.max(0) as usize, pending_labels: labels, action: label, branching: npend + extra, choice: raw_choice });
        w.wake();
    };

    // ---- after the end
    let probe_during_run = PROBE.load(Ordering::SeqCst) - probe0;
    let mut hook_restored = None;
    let mut post_end_polls_ok = true;
    if end == RunEnd::Completed {
        // the stream must stay finished
        for _ in 0..2 {
            match panic::catch_unwind(AssertUnwindSafe(|| poll(&mut cx))) {
                Ok(Poll::Ready(None)) => {}
                // A boxed stream is not required to be fused; polling after `None` is only done
                // when it does not panic. Anything but `None` is recorded.
                _ => post_end_polls_ok = false,
            }
        }
        let before = PROBE.load(Ordering::SeqCst);
        let _ = panic::catch_unwind(|| panic::panic_any(ProbeMarker));
        // exactly one more invocation, and by the very instance that was in place before the first poll
        hook_restored = Some(PROBE.load(Ordering::SeqCst) == before + 1 && PROBE_LAST_GEN.load(Ordering::SeqCst) == gen_at_start);
    }
    install_probe_hook();
    let calls = with_lab(|l| std::mem::take(&mut l.calls));
    RunLog {
        events,
        raw,
        calls,
        dispatched: verif_hooks::take_dispatched(),
        observed: verif_hooks::take_observed(),
        notified: verif_hooks::take_notified(),
        quiescent,
        polls,
        end,
        probe_during_run,
        hook_restored,
        max_idle_turns_in_poll: max_idle,
        parser_delivered: delivered.load(Ordering::SeqCst),
        post_end_polls_ok,
        max_delayed_outstanding,
        unresumed,
        parser_polled_after_end: with_lab(|l| l.parser_polled_after_end),
        busy_wait_during_delay,
    }
}
