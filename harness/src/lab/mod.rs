//! RunnerLab: the real `runner::Basic` driven over generated features x outcome plans x
//! configurations x a schedule owned by the harness.

pub mod case;
pub mod driver;
pub mod model;
pub mod oracles;
pub mod props;

use std::{
    cell::RefCell,
    collections::{HashMap, HashSet},
    future::Future,
    pin::Pin,
    task::{Context, Poll, Waker},
    time::Instant,
};

use cucumber::{World, event, step::Context as StepCtx};
use futures::{FutureExt as _, future::LocalBoxFuture};

// ------------------------------------------------------------------------------------------
// outcomes

#[derive(Clone, Copy, Debug, PartialEq, Eq, Hash)]
pub enum Oc {
    Pass,
    PanicString,
    PanicStr,
    PanicCustom,
    PanicI32,
    /// The callback panics synchronously, before it returns its future.
    PanicEager,
}

impl Oc {
    pub fn is_pass(self) -> bool {
        self == Oc::Pass
    }
}

#[derive(Clone, Copy, Debug, PartialEq, Eq)]
pub enum WnOc {
    Ok,
    Err,
    Panic,
    /// panics inside `World::new()` itself, before it returns its future
    PanicEager,
}

#[derive(Clone, Copy, Debug)]
pub struct PlanEntry {
    pub oc: Oc,
    pub gates: u8,
}

/// Payload token carried by a failure; unique per `(callback key, invocation)`.
#[derive(Clone, Debug, PartialEq, Eq, Hash, PartialOrd, Ord)]
pub enum Tok {
    Str(String),
    StaticStr(String),
    Custom(u64),
    I32(i32),
    Unknown,
}

#[derive(Debug)]
pub struct Custom(pub u64);

pub fn token_for(oc: Oc, key: &str, inv: usize) -> Option<Tok> {
    let h = crate::tape::hash_str(&format!("{key}#{inv}"));
    match oc {
        Oc::Pass => None,
        Oc::PanicString => Some(Tok::Str(format!("tok:{key}#{inv}"))),
        Oc::PanicStr => Some(Tok::StaticStr(format!("stok:{key}#{inv}"))),
        Oc::PanicCustom => Some(Tok::Custom(h)),
        Oc::PanicI32 => Some(Tok::I32((h & 0x7fff_ffff) as i32)),
        Oc::PanicEager => Some(Tok::Str(format!("etok:{key}#{inv}"))),
    }
}

pub fn wn_token(oc: WnOc, inv: usize) -> Option<Tok> {
    match oc {
        WnOc::Ok => None,
        WnOc::Err => Some(Tok::Str(format!("wn-err#{inv}"))),
        WnOc::Panic | WnOc::PanicEager => Some(Tok::Str(format!("wn-panic#{inv}"))),
    }
}

pub fn decode_info(i: &event::Info) -> Tok {
    if let Some(s) = i.downcast_ref::<String>() {
        Tok::Str(s.clone())
    } else if let Some(s) = i.downcast_ref::<&'static str>() {
        Tok::StaticStr((*s).to_string())
    } else if let Some(c) = i.downcast_ref::<Custom>() {
        Tok::Custom(c.0)
    } else if let Some(c) = i.downcast_ref::<i32>() {
        Tok::I32(*c)
    } else {
        Tok::Unknown
    }
}

// ------------------------------------------------------------------------------------------
// lab state

#[derive(Clone, Copy, Debug, PartialEq, Eq)]
pub enum Phase {
    Enter,
    Exit,
}

#[derive(Clone, Debug)]
pub struct Call {
    /// Position on the lab's logical clock (shared with received events and gate releases).
    pub seq: u64,
    pub key: String,
    pub inv: usize,
    pub phase: Phase,
    /// World instance id seen by the callback (for `WorldNew`: the id created, `None` on failure).
    pub world: Option<u64>,
    /// World mutation counter seen on entry.
    pub counter: u32,
    pub oc: Oc,
    pub wn: WnOc,
    /// For the after hook: the `ScenarioFinished` reason it received.
    pub reason: Option<Reason>,
    /// For hooks: `feature/rule/scenario` names the hook was given.
    pub args: Option<String>,
    pub at: Instant,
}

#[derive(Clone, Debug, PartialEq, Eq)]
pub enum Reason {
    BeforeHookFailed(Tok),
    StepPassed,
    StepSkipped,
    StepFailedPanic(Tok),
    StepFailedAmbiguous,
    StepFailedNotFound,
}

pub struct PendingGate {
    pub id: usize,
    pub waker: Waker,
    pub label: String,
    pub seq: u64,
}

#[derive(Default)]
pub struct Lab {
    pub pending: Vec<PendingGate>,
    pub released: HashSet<usize>,
    /// labels of the gates in `released` (released by the schedule, not yet passed by their future)
    pub released_labels: HashMap<usize, String>,
    pub next_gate: usize,
    pub plan: HashMap<String, Vec<PlanEntry>>,
    pub inv: HashMap<String, usize>,
    pub wn_plan: Vec<(WnOc, u8)>,
    pub wn_calls: usize,
    pub calls: Vec<Call>,
    pub next_world: u64,
    pub clock: u64,
    /// Scenario names classified serial by the custom classifier.
    pub custom_serial: HashSet<String>,
    /// Activity counter (callbacks, gates) used by the driver's progress accounting.
    pub activity: u64,
    /// Optional sink for log lines emitted by callbacks (set by the tracing harness).
    pub log_hook: Option<fn(&str)>,
    /// Optional factory of an object created inside a callback and kept alive after the callback
    /// returned (tracing harness: a child span that outlives its step), until the schedule releases
    /// the pseudo-gate `span:<key>#<inv>`.
    pub span_hook: Option<fn(&str) -> Box<dyn std::any::Any>>,
    pub held: Vec<(usize, Box<dyn std::any::Any>, String)>,
    /// Called with a held object and its log token right before the schedule drops it (tracing
    /// harness: the background task logs inside its span, then ends).
    pub span_release_hook: Option<fn(&dyn std::any::Any, &str)>,
    /// Emits a log from outside every scenario's context (tracing harness: from a detached thread).
    pub unattributed_log_hook: Option<fn(&str)>,
    /// Polls of the lab parser stream after it had returned `None`.
    pub parser_polled_after_end: u64,
}

thread_local! {
    pub static LAB: RefCell<Lab> = RefCell::new(Lab::default());
}

pub fn with_lab<R>(f: impl FnOnce(&mut Lab) -> R) -> R {
    LAB.with(|l| f(&mut l.borrow_mut()))
}

impl Lab {
    pub fn tick(&mut self) -> u64 {
        self.clock += 1;
        self.clock
    }
}

// ------------------------------------------------------------------------------------------
// gates

pub struct Gate {
    id: Option<usize>,
    label: String,
}

pub fn gate(label: impl Into<String>) -> Gate {
    Gate { id: None, label: label.into() }
}

impl Future for Gate {
    type Output = ();

    fn poll(mut self: Pin<&mut Self>, cx: &mut Context<'_>) -> Poll<()> {
        with_lab(|s| match self.id {
            None => {
                let id = s.next_gate;
                s.next_gate += 1;
                let seq = s.tick();
                s.activity += 1;
                s.pending.push(PendingGate { id, waker: cx.waker().clone(), label: self.label.clone(), seq });
                self.id = Some(id);
                Poll::Pending
            }
            Some(id) => {
                if s.released.remove(&id) {
                    s.released_labels.remove(&id);
                    s.activity += 1;
                    Poll::Ready(())
                } else {
                    if let Some(p) = s.pending.iter_mut().find(|p| p.id == id) {
                        p.waker = cx.waker().clone();
                    }
                    Poll::Pending
                }
            }
        })
    }
}

// ------------------------------------------------------------------------------------------
// World and callbacks

#[derive(Debug)]
pub struct W {
    pub id: u64,
    pub counter: u32,
}

impl World for W {
    type Error = String;

    // Deliberately not an `async fn`: the trait asks for `fn new() -> impl Future`, so a hand-written
    // implementation may run code (and panic) before it returns its future.
    fn new() -> impl std::future::Future<Output = Result<Self, String>> {
        let (n, oc, gates) = with_lab(|l| {
            let n = l.wn_calls;
            l.wn_calls += 1;
            let (oc, g) = l.wn_plan.get(n).copied().unwrap_or((WnOc::Ok, 0));
            let seq = l.tick();
            l.activity += 1;
            l.calls.push(Call {
                seq,
                key: "WorldNew".into(),
                inv: n,
                phase: Phase::Enter,
                world: None,
                counter: 0,
                oc: Oc::Pass,
                wn: oc,
                reason: None,
                args: None,
                at: Instant::now(),
            });
            (n, oc, g)
        });
        if oc == WnOc::PanicEager {
            with_lab(|l| {
                let seq = l.tick();
                l.activity += 1;
                l.calls.push(Call {
                    seq,
                    key: "WorldNew".into(),
                    inv: n,
                    phase: Phase::Exit,
                    world: None,
                    counter: 0,
                    oc: Oc::Pass,
                    wn: oc,
                    reason: None,
                    args: None,
                    at: Instant::now(),
                });
            });
            panic!("wn-panic#{n}");
        }
        W::new_rest(n, oc, gates)
    }
}

impl W {
    async fn new_rest(n: usize, oc: WnOc, gates: u8) -> Result<Self, String> {
        for g in 0..gates {
            gate(format!("cb:WorldNew#{n}.{g}")).await;
        }
        let id = with_lab(|l| {
            let id = if oc == WnOc::Ok {
                l.next_world += 1;
                Some(l.next_world)
            } else {
                None
            };
            let seq = l.tick();
            l.activity += 1;
            l.calls.push(Call {
                seq,
                key: "WorldNew".into(),
                inv: n,
                phase: Phase::Exit,
                world: id,
                counter: 0,
                oc: Oc::Pass,
                wn: oc,
                reason: None,
                args: None,
                at: Instant::now(),
            });
            id
        });
        match oc {
            WnOc::Ok => Ok(W { id: id.unwrap_or(0), counter: 0 }),
            WnOc::Err => Err(format!("wn-err#{n}")),
            WnOc::Panic | WnOc::PanicEager => panic!("wn-panic#{n}"),
        }
    }
}

/// Number of log events a callback emits in a phase ("pre" = before its gates, "post" = after its
/// last await point): 0..=2 as a rule, a burst of 20..=64 in one of 16 (callback, phase) pairs.
/// Whether callback `key`#`inv` leaves an object alive after it returned (if a `span_hook` is set).
pub fn leaves_span(key: &str, inv: usize) -> bool {
    crate::tape::hash_str(&format!("{key}#{inv}span")) % 6 == 0
}

pub fn log_count(key: &str, inv: usize, phase: &str) -> u64 {
    let h = crate::tape::hash_str(&format!("{key}#{inv}{phase}"));
    if h % 16 == 3 { 20 + (h / 16) % 45 } else { h % 3 }
}

/// Free text after a log token: separators the integration uses internally (`__`), quotes, `=`.
pub fn log_tail(j: u64) -> &'static str {
    ["", " user__id=7 __init__", " a \"quoted\" field=1", " trailing__", " first line\n  second line of the same event"][(j % 5) as usize]
}

pub async fn callback(key: String, world: Option<&mut W>, reason: Option<Reason>, args: Option<String>) {
    let (wid, cnt) = world.as_ref().map_or((None, 0), |w| (Some(w.id), w.counter));
    let (inv, entry) = with_lab(|l| {
        let c = l.inv.entry(key.clone()).or_default();
        let inv = *c;
        *c += 1;
        let e = l.plan.get(&key).and_then(|v| v.get(inv)).copied().unwrap_or(PlanEntry { oc: Oc::Pass, gates: 0 });
        let seq = l.tick();
        l.activity += 1;
        l.calls.push(Call {
            seq,
            key: key.clone(),
            inv,
            phase: Phase::Enter,
            world: wid,
            counter: cnt,
            oc: e.oc,
            wn: WnOc::Ok,
            reason,
            args,
            at: Instant::now(),
        });
        (inv, e)
    });
    if let Some(w) = world {
        w.counter += 1;
    }
    let hook = with_lab(|l| l.log_hook);
    if let Some(u) = with_lab(|l| l.unattributed_log_hook) {
        if crate::tape::hash_str(&format!("{key}#{inv}unattr")) % 8 == 0 {
            u(&format!("UNATTR|{key}|{inv}|END"));
        }
    }
    let nlogs = |phase: &str| log_count(&key, inv, phase);
    if let Some(h) = hook {
        for j in 0..nlogs("pre") {
            h(&format!("LOGTOK|{key}|{inv}|{}|pre{j}|END{}", wid.map_or("-".to_string(), |w| w.to_string()), log_tail(j)));
        }
    }
    for g in 0..entry.gates {
        gate(format!("cb:{key}#{inv}.{g}")).await;
    }
    if let Some(h) = hook {
        for j in 0..nlogs("post") {
            h(&format!("LOGTOK|{key}|{inv}|{}|post{j}|END{}", wid.map_or("-".to_string(), |w| w.to_string()), log_tail(j + 1)));
        }
    }
    if let Some(sh) = with_lab(|l| l.span_hook) {
        if leaves_span(&key, inv) {
            let obj = sh(&format!("{key}#{inv}"));
            with_lab(|l| {
                let id = l.next_gate;
                l.next_gate += 1;
                let seq = l.tick();
                l.activity += 1;
                l.held.push((id, obj, format!("LOGTOK|{key}|{inv}|{}|late0|END", wid.map_or("-".to_string(), |w| w.to_string()))));
                l.pending.push(PendingGate { id, waker: futures::task::noop_waker(), label: format!("span:{key}#{inv}"), seq });
            });
        }
    }
    with_lab(|l| {
        let seq = l.tick();
        l.activity += 1;
        l.calls.push(Call {
            seq,
            key: key.clone(),
            inv,
            phase: Phase::Exit,
            world: wid,
            counter: cnt,
            oc: entry.oc,
            wn: WnOc::Ok,
            reason: None,
            args: None,
            at: Instant::now(),
        });
    });
    match token_for(entry.oc, &key, inv) {
        None => {}
        Some(Tok::Str(s)) => std::panic::panic_any(s),
        Some(Tok::StaticStr(s)) => {
            let leaked: &'static str = Box::leak(s.into_boxed_str());
            std::panic::panic_any(leaked)
        }
        Some(Tok::Custom(h)) => std::panic::panic_any(Custom(h)),
        Some(Tok::I32(i)) => std::panic::panic_any(i),
        Some(Tok::Unknown) => unreachable!(),
    }
}

/// If the next invocation of `key` is planned to panic eagerly, consumes it, logs it and panics
/// right here (i.e. in the synchronous part of the user callback).
pub fn eager_check(key: &str, world: Option<&W>, reason: Option<Reason>, args: Option<String>) {
    let hit = with_lab(|l| {
        let inv = l.inv.get(key).copied().unwrap_or(0);
        let e = l.plan.get(key).and_then(|v| v.get(inv)).copied();
        if e.is_some_and(|e| e.oc == Oc::PanicEager) {
            *l.inv.entry(key.to_string()).or_default() += 1;
            for phase in [Phase::Enter, Phase::Exit] {
                let seq = l.tick();
                l.activity += 1;
                l.calls.push(Call {
                    seq,
                    key: key.to_string(),
                    inv,
                    phase,
                    world: world.map(|w| w.id),
                    counter: world.map_or(0, |w| w.counter),
                    oc: Oc::PanicEager,
                    wn: WnOc::Ok,
                    reason: if phase == Phase::Enter { reason.clone() } else { None },
                    args: if phase == Phase::Enter { args.clone() } else { None },
                    at: Instant::now(),
                });
            }
            Some(inv)
        } else {
            None
        }
    });
    if let Some(inv) = hit {
        std::panic::panic_any(format!("etok:{key}#{inv}"));
    }
}

pub fn step_fn(w: &mut W, ctx: StepCtx) -> LocalBoxFuture<'_, ()> {
    let key = format!("step:{}", ctx.step.value);
    eager_check(&key, Some(w), None, None);
    async move { callback(key, Some(w), None, None).await }.boxed_local()
}

/// Second definition for `amb` steps; must never actually be invoked.
pub fn step_fn2(w: &mut W, ctx: StepCtx) -> LocalBoxFuture<'_, ()> {
    async move { callback(format!("step2:{}", ctx.step.value), Some(w), None, None).await }.boxed_local()
}

pub fn decode_reason(ev: &event::ScenarioFinished) -> Reason {
    match ev {
        event::ScenarioFinished::BeforeHookFailed(i) => Reason::BeforeHookFailed(decode_info(i)),
        event::ScenarioFinished::StepPassed => Reason::StepPassed,
        event::ScenarioFinished::StepSkipped => Reason::StepSkipped,
        event::ScenarioFinished::StepFailed(_, _, e) => match e {
            event::StepError::Panic(i) => Reason::StepFailedPanic(decode_info(i)),
            event::StepError::AmbiguousMatch(_) => Reason::StepFailedAmbiguous,
            event::StepError::NotFound => Reason::StepFailedNotFound,
        },
    }
}
