//! `vcheck run <ID> <tier>` | `vcheck worker <ID> <tier> <i> <k>` | `vcheck saved <ID> <tier>` |
//! `vcheck replay <ID> <file>`

use vlab::engine::{self, Property, Tier};

fn tier_of(s: &str) -> Tier {
    match s {
        "thorough" => Tier::Thorough,
        _ => Tier::Quick,
    }
}

/// The process's own command line must be one the crate's CLI parser accepts: a `Cucumber` that
/// lost the options given to `with_cli()` parses `std::env::args()` instead, and with our arguments
/// there clap would end the process (a harness error) where an empty command line lets the run go
/// on with default options - a difference the oracles see. So every invocation re-executes itself
/// with its arguments moved into `VLAB_ARGV`.
fn argv() -> Vec<String> {
    let real: Vec<String> = std::env::args().collect();
    if real.len() > 1 {
        let exe = std::env::current_exe().expect("current_exe");
        use std::os::unix::process::CommandExt as _;
        let err = std::process::Command::new(exe).env("VLAB_ARGV", real[1..].join("\u{1f}")).exec();
        eprintln!("HARNESS-ERROR cannot re-execute: {err}");
        std::process::exit(2);
    }
    let mut v = vec![real.first().cloned().unwrap_or_else(|| "vcheck".into())];
    if let Ok(a) = std::env::var("VLAB_ARGV") {
        v.extend(a.split('\u{1f}').map(str::to_string));
    }
    v
}

fn main() {
    let args: Vec<String> = argv();
    let usage = || -> ! {
        eprintln!("usage: vcheck run|worker|saved|replay <ID> ...");
        std::process::exit(2)
    };
    if args.len() >= 3 && args[1] == "reports" {
        // debug: `vcheck reports <seed>` prints the four reports for a generated stream
        use vlab::stream::{self, c14};
        let seed: u64 = args[2].parse().unwrap();
        let mut ta = vlab::tape::Tape::new(vlab::tape::tape_from_seed(seed, 500));
        let p = stream::SProfile { decorate: args.len() > 3, p_dup_names: 10, ..stream::SProfile::default() };
        let tree = stream::gen_tree(&mut ta, &p);
        let mut tb = vlab::tape::Tape::new(vlab::tape::tape_from_seed(seed ^ 77, 500));
        let st = stream::linearise(&mut tb, &tree, true, true);
        let o = c14::Opts { verbosity: 0, show_output: false, report_time: false, junit_verbose: false };
        let r = c14::produce(&st, &o);
        println!("===== BASIC\n{:?}\n===== LIBTEST\n{:?}\n===== JSON\n{:?}\n===== JUNIT\n{:?}", r.basic, r.libtest, r.json, r.junit);
        for v in c14::check_all(&st, &o) {
            println!("VIOL {}: {}", v.sig, v.msg);
        }
        return;
    }
    if args.get(1).is_some_and(|a| a == "genversion") {
        println!("{}", engine::GEN_VERSION);
        return;
    }
    if args.len() < 3 {
        usage();
    }
    let Some(prop) = vlab::property(&args[2]) else {
        eprintln!("unknown property {}", args[2]);
        std::process::exit(2)
    };
    let prop: &dyn Property = &*prop;
    let seed: u64 = std::env::var("VERIF_SEED").ok().and_then(|s| s.parse().ok()).unwrap_or(0);
    match args[1].as_str() {
        "run" => {
            let tier = tier_of(args.get(3).map_or("quick", String::as_str));
            std::process::exit(engine::parent(prop, tier, seed));
        }
        "worker" => {
            let tier = tier_of(&args[3]);
            let i: u64 = args[4].parse().unwrap();
            let k: u64 = args[5].parse().unwrap();
            let cases = std::env::var("VERIF_CASES").ok().and_then(|s| s.parse().ok());
            engine::worker(prop, tier, seed, (i, k), cases);
        }
        "saved" => engine::saved(prop, tier_of(&args[3])),
        "replay" => std::process::exit(engine::replay(prop, &args[3])),
        "find" => {
            let max: u64 = args.get(4).and_then(|s| s.parse().ok()).unwrap_or(200_000);
            match engine::find_signature(prop, &args[3], seed, max) {
                Some(i) => println!("{}", i.to_json()),
                None => {
                    eprintln!("signature {} not found in {max} cases", args[3]);
                    std::process::exit(1)
                }
            }
        }
        "fuzzseed" => {
            // `vcheck fuzzseed <ID> <dir>`: a few valid inputs as libFuzzer seed corpus
            let dir = std::path::Path::new(&args[3]);
            std::fs::create_dir_all(dir).unwrap();
            let (la, lb) = prop.tape_lens(Tier::Quick);
            for s in 0..8u64 {
                let input = engine::Input { a: vlab::tape::tape_from_seed(seed.wrapping_mul(31) + s, la.min(600)), b: vlab::tape::tape_from_seed(s ^ 0xF00D, lb.min(200)) };
                std::fs::write(dir.join(format!("seed{s}")), engine::input_to_bytes(&input)).unwrap();
            }
        }
        "dump" => {
            // `vcheck dump <ID> <seed>`: the input generated from a seed, with its decoded case.
            let s: u64 = args[3].parse().unwrap();
            let (la, lb) = prop.tape_lens(Tier::Quick);
            let input = engine::Input { a: vlab::tape::tape_from_seed(s, la), b: vlab::tape::tape_from_seed(s ^ 0xABCD, lb) };
            let ctx = engine::Ctx { tier: Tier::Quick, known: Default::default(), want_sample: true, strict: true };
            let out = prop.run(&input, &ctx);
            println!("{}", serde_json::json!({"property": prop.id(), "input": input.to_json(), "decoded": out.sample, "violations": out.violations.iter().map(|v| format!("{}: {}", v.sig, v.msg)).collect::<Vec<_>>()}));
        }
        _ => usage(),
    }
}
