//! Campaign engine: proptest-driven generation + shrinking of tapes, worker processes,
//! evidence files, replay files, known findings.

use std::{
    cell::RefCell,
    collections::{BTreeMap, BTreeSet},
    io::{BufRead as _, BufReader, Write as _},
    path::{Path, PathBuf},
    process::{Command, Stdio},
    time::{Duration, Instant},
};

use proptest::{
    prelude::*,
    test_runner::{Config, RngSeed, TestCaseError, TestError, TestRunner},
};
use serde_json::{Value, json};

use crate::tape::{hash_str, mix};

pub const VERIF_DIR: &str = "/verif";
/// Bumped whenever a generator changes the meaning of tapes (stored reproducers / regression inputs
/// then have to be regenerated: `regen_reproducers.py`, `make_seed_regressions.sh`).
pub const GEN_VERSION: u32 = 15;

#[derive(Clone, Debug, PartialEq, Eq)]
pub struct Input {
    pub a: Vec<u32>,
    pub b: Vec<u32>,
}

impl Input {
    pub fn to_json(&self) -> Value {
        json!({"a": self.a, "b": self.b})
    }
    pub fn from_json(v: &Value) -> Option<Self> {
        let f = |k: &str| -> Option<Vec<u32>> {
            Some(v.get(k)?.as_array()?.iter().map(|x| x.as_u64().unwrap_or(0) as u32).collect())
        };
        Some(Self { a: f("a")?, b: f("b")? })
    }
}

/// Byte encoding of an [`Input`] shared with the libFuzzer target: little-endian `u32` words; the
/// first word splits the remaining ones between tape `a` and tape `b`.
pub fn input_from_bytes(data: &[u8]) -> Input {
    let words: Vec<u32> = data
        .chunks(4)
        .map(|c| {
            let mut b = [0u8; 4];
            b[..c.len()].copy_from_slice(c);
            u32::from_le_bytes(b)
        })
        .collect();
    let Some((first, rest)) = words.split_first() else { return Input { a: vec![], b: vec![] } };
    let cut = ((u64::from(*first) * (rest.len() as u64 + 1)) >> 32) as usize;
    Input { a: rest[..cut].to_vec(), b: rest[cut..].to_vec() }
}

pub fn input_to_bytes(i: &Input) -> Vec<u8> {
    let n = (i.a.len() + i.b.len()) as u64;
    let first = (((i.a.len() as u64) << 32).div_ceil(n + 1)).min(u64::from(u32::MAX)) as u32;
    let mut out = first.to_le_bytes().to_vec();
    for w in i.a.iter().chain(&i.b) {
        out.extend_from_slice(&w.to_le_bytes());
    }
    out
}

#[derive(Clone, Debug)]
pub struct Violation {
    /// Stable signature produced by the oracle: `<clause>/<sub-clause>`.
    pub sig: String,
    pub msg: String,
}

impl Violation {
    pub fn new(sig: impl Into<String>, msg: impl Into<String>) -> Self {
        Self { sig: sig.into(), msg: msg.into() }
    }
}

#[derive(Clone, Debug, Default)]
pub struct CaseOut {
    pub violations: Vec<Violation>,
    pub nontrivial: bool,
    /// Hash of the canonical decoded case (what was actually executed).
    pub hash: u64,
    pub labels: Vec<&'static str>,
    pub sample: Option<Value>,
    /// Number of generator decisions that were overridden to stay clear of a known finding.
    pub excluded: u64,
    /// Harness problem (not a verdict about the code): turns the run into exit 2.
    pub harness_error: Option<String>,
    /// Extra numeric counters to accumulate (e.g. events, attempts, sub-evaluations).
    pub counters: Vec<(&'static str, u64)>,
}

#[derive(Clone, Copy, Debug, PartialEq, Eq)]
pub enum Tier {
    Quick,
    Thorough,
}

impl Tier {
    pub fn name(self) -> &'static str {
        match self {
            Tier::Quick => "quick",
            Tier::Thorough => "thorough",
        }
    }
}

pub struct Ctx {
    pub tier: Tier,
    /// Known-finding signatures for this property (violations with these signatures are
    /// counted, not reported) .
    pub known: BTreeSet<String>,
    pub want_sample: bool,
    /// In replay mode nothing is excluded or tolerated.
    pub strict: bool,
}

impl Ctx {
    pub fn is_known(&self, sig: &str) -> bool {
        !self.strict && self.known.contains(sig)
    }
}

pub struct Exhaustive {
    pub description: String,
    /// false only if the enumeration was cut short (a violation stopped it)
    pub complete: bool,
    /// members of the sub-space enumerated completely by this shard
    pub included: u64,
    /// candidates left out of the sub-space because their tree exceeded the cap (explored partially)
    pub truncated: u64,
}

/// Name of the binary running this engine (`vtrace` sets it; default `vcheck`).
pub static HARNESS: std::sync::OnceLock<&'static str> = std::sync::OnceLock::new();

pub trait Property {
    fn id(&self) -> &'static str;
    /// How cases are generated and what makes one non-trivial.
    fn rule(&self) -> String;
    fn assumptions(&self) -> Vec<String> {
        vec![]
    }
    /// (len of tape a, len of tape b)
    fn tape_lens(&self, tier: Tier) -> (usize, usize);
    /// Directory name under `regressions/` and `property` key in known_findings.json for this
    /// property's saved inputs (differs from `id` for a second harness serving the same property).
    fn saved_id(&self) -> &'static str {
        self.id()
    }
    fn cases(&self, tier: Tier) -> u64;
    fn run(&self, input: &Input, ctx: &Ctx) -> CaseOut;
    /// Labels whose frequency must be at least the given fraction of all evaluations,
    /// otherwise the generator is considered degenerate (exit 2).
    fn floors(&self) -> Vec<(&'static str, f64)> {
        vec![]
    }
    /// Bounded-exhaustive sub-space, sharded over workers. Called once per worker; must feed
    /// every enumerated case to `sink` and stop early if `sink` returns false.
    fn exhaustive(
        &self,
        _tier: Tier,
        _shard: (u64, u64),
        _ctx: &Ctx,
        _sink: &mut dyn FnMut(CaseOut, Input) -> bool,
    ) -> Option<Exhaustive> {
        None
    }
    /// Number of worker processes wanted (RunnerLab properties need processes; others too,
    /// for uniformity).
    fn workers(&self, tier: Tier) -> u64 {
        match tier {
            Tier::Quick => 8,
            Tier::Thorough => 14,
        }
    }
    /// Wall-clock safety net per worker.
    fn worker_budget(&self, tier: Tier) -> Duration {
        match tier {
            Tier::Quick => Duration::from_secs(600),
            Tier::Thorough => Duration::from_secs(4 * 3600),
        }
    }
}

// ------------------------------------------------------------------------------------------
// known findings

#[derive(Clone, Debug)]
pub struct Finding {
    pub kind: String, // "known" | "fixed"
    pub property: String,
    pub signature: String,
    pub what: String,
    pub commit: Option<String>,
    pub reproducer: Option<Input>,
    pub gen_version: Option<u64>,
}

pub fn load_findings() -> Vec<Finding> {
    let p = Path::new(VERIF_DIR).join("known_findings.json");
    let Ok(s) = std::fs::read_to_string(&p) else { return vec![] };
    let v: Value = serde_json::from_str(&s).expect("known_findings.json is not valid JSON");
    v["findings"]
        .as_array()
        .map(|a| {
            a.iter()
                .map(|f| Finding {
                    kind: f["kind"].as_str().unwrap_or("known").to_string(),
                    property: f["property"].as_str().unwrap_or("").to_string(),
                    signature: f["signature"].as_str().unwrap_or("").to_string(),
                    what: f["what"].as_str().unwrap_or("").to_string(),
                    commit: f["commit"].as_str().map(str::to_string),
                    reproducer: f.get("reproducer").and_then(Input::from_json),
                    gen_version: f.get("gen_version").and_then(Value::as_u64),
                })
                .collect()
        })
        .unwrap_or_default()
}

pub fn known_sigs(id: &str) -> BTreeSet<String> {
    load_findings()
        .into_iter()
        .filter(|f| f.kind == "known" && f.property == id)
        .map(|f| f.signature)
        .collect()
}

// ------------------------------------------------------------------------------------------
// worker

#[derive(Default)]
struct Acc {
    evaluations: u64,
    nontrivial: BTreeSet<u64>,
    labels: BTreeMap<String, u64>,
    counters: BTreeMap<String, u64>,
    samples: Vec<Value>,
    trivial_samples: Vec<Value>,
    excluded: u64,
    known_hits: BTreeMap<String, u64>,
    harness_errors: Vec<String>,
    stopped: bool,
}

impl Acc {
    /// Returns the first violation that is not a known finding.
    fn absorb(&mut self, out: &CaseOut, ctx: &Ctx) -> Option<Violation> {
        if self.stopped {
            // shrinking phase: do not count
            return out.violations.iter().find(|v| !ctx.is_known(&v.sig)).cloned();
        }
        self.evaluations += 1;
        if out.nontrivial {
            self.nontrivial.insert(out.hash);
        }
        for l in &out.labels {
            *self.labels.entry((*l).to_string()).or_default() += 1;
        }
        for (k, n) in &out.counters {
            *self.counters.entry((*k).to_string()).or_default() += n;
        }
        self.excluded += out.excluded;
        if let Some(s) = &out.sample {
            if out.nontrivial && self.samples.len() < 2 {
                self.samples.push(s.clone());
            } else if !out.nontrivial && self.trivial_samples.is_empty() {
                self.trivial_samples.push(s.clone());
            }
        }
        if let Some(e) = &out.harness_error {
            if self.harness_errors.len() < 5 {
                self.harness_errors.push(e.clone());
            }
        }
        let mut first = None;
        for v in &out.violations {
            if ctx.is_known(&v.sig) {
                *self.known_hits.entry(v.sig.clone()).or_default() += 1;
            } else if first.is_none() {
                first = Some(v.clone());
            }
        }
        if first.is_some() {
            self.stopped = true;
        }
        first
    }

    fn to_json(&self) -> Value {
        json!({
            "type": "stats",
            "evaluations": self.evaluations,
            "nontrivial": self.nontrivial.iter().collect::<Vec<_>>(),
            "labels": self.labels,
            "counters": self.counters,
            "samples": self.samples,
            "trivial_samples": self.trivial_samples,
            "excluded": self.excluded,
            "known_hits": self.known_hits,
            "harness_errors": self.harness_errors,
        })
    }
}

fn emit(v: &Value) {
    let out = std::io::stdout();
    let mut l = out.lock();
    let _ = writeln!(l, "{v}");
    let _ = l.flush();
}

/// Runs the campaign of one worker process and prints JSON lines.
pub fn worker(prop: &dyn Property, tier: Tier, seed: u64, shard: (u64, u64), cases_override: Option<u64>) {
    let ctx = Ctx { tier, known: known_sigs(prop.saved_id()), want_sample: false, strict: false };
    let acc = RefCell::new(Acc::default());
    let (i, k) = shard;

    // --- bounded-exhaustive part
    let mut exh_fail: Option<(Violation, Input)> = None;
    let exh = {
        let ctx_s = Ctx { want_sample: true, known: ctx.known.clone(), ..ctx };
        let mut sink = |out: CaseOut, input: Input| -> bool {
            if let Some(v) = acc.borrow_mut().absorb(&out, &ctx_s) {
                exh_fail = Some((v, input));
                return false;
            }
            true
        };
        prop.exhaustive(tier, shard, &ctx_s, &mut sink)
    };
    if let Some(e) = &exh {
        emit(&json!({"type": "exhaustive", "description": e.description, "complete": e.complete && exh_fail.is_none(), "included": e.included, "truncated": e.truncated}));
    }
    if let Some((v, input)) = exh_fail {
        emit(&json!({"type": "failure", "sig": v.sig, "msg": v.msg, "input": input.to_json(), "origin": "exhaustive"}));
        emit(&acc.borrow().to_json());
        return;
    }

    // --- random part
    let total = cases_override.unwrap_or_else(|| prop.cases(tier));
    let cases = total / k + u64::from(i < total % k);
    let (la, lb) = prop.tape_lens(tier);
    let wseed = mix(mix(seed, hash_str(prop.id())), i);
    let mut seed_bytes = [0u8; 32];
    for (j, chunk) in seed_bytes.chunks_mut(8).enumerate() {
        chunk.copy_from_slice(&mix(wseed, j as u64).to_le_bytes());
    }
    let _ = seed_bytes;
    let config = Config {
        cases: cases as u32,
        failure_persistence: None,
        rng_seed: RngSeed::Fixed(wseed),
        max_shrink_iters: 300,
        max_global_rejects: 0,
        max_local_rejects: 0,
        ..Config::default()
    };
    let mut runner = TestRunner::new(config);
    // Tape lengths vary so that short tapes (simple tail = all zero choices) are also explored.
    let strat = (
        prop::collection::vec(any::<u32>(), la / 4..=la),
        prop::collection::vec(any::<u32>(), 0..=lb),
    );
    let sample_every = (cases / 6).max(1);
    let result = if cases == 0 {
        Ok(())
    } else {
        runner.run(&strat, |(a, b)| {
            let input = Input { a, b };
            let n = acc.borrow().evaluations;
            let want_sample = {
                let acc = acc.borrow();
                !acc.stopped && (acc.samples.len() < 2 && n % sample_every == 0 || acc.samples.is_empty() && n % 7 == 3)
            };
            let c = Ctx { tier, known: ctx.known.clone(), want_sample, strict: false };
            let out = prop.run(&input, &c);
            match acc.borrow_mut().absorb(&out, &c) {
                Some(v) => Err(TestCaseError::fail(format!("{}\u{1}{}", v.sig, v.msg))),
                None => Ok(()),
            }
        })
    };
    match result {
        Ok(()) => {}
        Err(TestError::Fail(reason, (a, b))) => {
            let r = reason.message().to_string();
            let (sig, msg) = r.split_once('\u{1}').map(|(s, m)| (s.to_string(), m.to_string())).unwrap_or((r.clone(), r.clone()));
            // Second, cheap minimisation pass (truncate / zero chunks), then re-run the minimal
            // case once for a human-readable decode.
            let c0 = Ctx { tier, known: ctx.known.clone(), want_sample: false, strict: false };
            let input = minimize(Input { a, b }, &|i: &Input| prop.run(i, &c0).violations.iter().any(|v| !c0.is_known(&v.sig)));
            let c = Ctx { tier, known: ctx.known.clone(), want_sample: true, strict: false };
            let out = prop.run(&input, &c);
            let (sig, msg) = out.violations.iter().find(|v| !c.is_known(&v.sig)).map_or((sig, msg), |v| (v.sig.clone(), v.msg.clone()));
            emit(&json!({"type": "failure", "sig": sig, "msg": msg, "input": input.to_json(), "decoded": out.sample, "origin": "random"}));
        }
        Err(TestError::Abort(reason)) => {
            emit(&json!({"type": "harness_error", "msg": format!("proptest aborted: {}", reason.message())}));
        }
    }
    emit(&acc.borrow().to_json());
}

/// Greedy minimisation of a failing input: truncation, then zeroing of chunks.
pub fn minimize(mut input: Input, fails: &dyn Fn(&Input) -> bool) -> Input {
    let mut budget = 1500usize;
    let mut try_ = |cand: &Input, budget: &mut usize| -> bool {
        if *budget == 0 {
            return false;
        }
        *budget -= 1;
        fails(cand)
    };
    for which in [1usize, 0, 1] {
        // truncate
        loop {
            let len = if which == 0 { input.a.len() } else { input.b.len() };
            if len == 0 {
                break;
            }
            let mut progressed = false;
            for new_len in [0, len / 2, len - len / 4, len - 1] {
                if new_len >= len {
                    continue;
                }
                let mut c = input.clone();
                if which == 0 {
                    c.a.truncate(new_len);
                } else {
                    c.b.truncate(new_len);
                }
                if try_(&c, &mut budget) {
                    input = c;
                    progressed = true;
                    break;
                }
            }
            if !progressed {
                break;
            }
        }
        // zero chunks
        for chunk in [64usize, 16, 4, 1] {
            let len = if which == 0 { input.a.len() } else { input.b.len() };
            let mut i = 0;
            while i < len {
                let end = (i + chunk).min(len);
                let v = if which == 0 { &input.a } else { &input.b };
                if v[i..end].iter().any(|x| *x != 0) {
                    let mut c = input.clone();
                    let cv = if which == 0 { &mut c.a } else { &mut c.b };
                    for x in &mut cv[i..end] {
                        *x = 0;
                    }
                    if try_(&c, &mut budget) {
                        input = c;
                    }
                }
                i = end;
            }
        }
    }
    // drop trailing zeros (reading past the end yields 0 anyway)
    while input.a.last() == Some(&0) {
        input.a.pop();
    }
    while input.b.last() == Some(&0) {
        input.b.pop();
    }
    input
}

// ------------------------------------------------------------------------------------------
// parent

pub struct RunSummary {
    pub exit: i32,
}

fn write_replay(id: &str, sig: &str, msg: &str, input: &Value, decoded: &Value, origin: &str) -> PathBuf {
    let dir = Path::new(VERIF_DIR).join("replays").join(id);
    let _ = std::fs::create_dir_all(&dir);
    let body = json!({
        "property": id, "signature": sig, "message": msg, "input": input, "decoded": decoded,
        "origin": origin, "gen_version": GEN_VERSION,
        // which binary decodes this input (`vcheck`, or `vtrace` for the tracing build)
        "harness": HARNESS.get().copied().unwrap_or("vcheck"),
        // C19's generated zoo is a build-time input: `./check --replay` rebuilds with this seed
        "zoo_seed": crate::func::zoo2::ZOO2_SEED,
        "replay": format!("./check {id} --replay <this file>"),
    });
    let h = hash_str(&format!("{sig}{input}"));
    let p = dir.join(format!("{h:016x}.json"));
    let _ = std::fs::write(&p, serde_json::to_string_pretty(&body).unwrap());
    p
}

/// Runs regressions + known-finding reproducers (in-process: they are few), returns
/// (lines to print, violations found)
fn run_saved(prop: &dyn Property, tier: Tier) -> (Vec<String>, Vec<(Violation, Value)>, u64, Vec<String>) {
    let mut lines = vec![];
    let mut viols = vec![];
    let mut n = 0u64;
    let mut herr = vec![];
    let id = prop.id();
    let sid = prop.saved_id();
    let known = known_sigs(sid);
    // 1. known findings: reproducer must still fail with the listed signature -> KNOWN-FINDING line.
    for f in load_findings().into_iter().filter(|f| f.property == sid) {
        let Some(input) = &f.reproducer else {
            if f.kind == "known" {
                lines.push(format!("KNOWN-FINDING: property={id} {} ({}) [no reproducer stored]", f.signature, f.what));
            }
            continue;
        };
        n += 1;
        if f.gen_version != Some(u64::from(GEN_VERSION)) {
            lines.push(format!("NOTE: property={id} reproducer of {} was recorded with generator version {:?}, current is {GEN_VERSION}: regenerate it (regen_reproducers.py)", f.signature, f.gen_version));
        }
        // stored inputs (reproducers, regressions) were recorded under the quick tier's profile and
        // are decoded under it in every tier, as `--replay` does
        let strict = Ctx { tier: Tier::Quick, known: BTreeSet::new(), want_sample: false, strict: true };
        // timing-dependent cases: try a few times
        let mut hit = false;
        let mut other: Option<Violation> = None;
        for _ in 0..5 {
            let out = prop.run(input, &strict);
            if let Some(e) = out.harness_error {
                herr.push(e);
            }
            if out.violations.iter().any(|v| v.sig == f.signature) {
                hit = true;
            }
            if let Some(v) = out.violations.iter().find(|v| v.sig != f.signature && !known.contains(&v.sig)) {
                other = Some(v.clone());
            }
            if hit {
                break;
            }
        }
        match (f.kind.as_str(), hit) {
            ("known", true) => lines.push(format!("KNOWN-FINDING: property={id} {} ({})", f.signature, f.what)),
            ("known", false) => lines.push(format!(
                "NOTE: property={id} known finding {} no longer reproduces from its stored reproducer (fixed? update known_findings.json)",
                f.signature
            )),
            ("fixed", true) => viols.push((
                Violation::new(f.signature.clone(), format!("fixed finding is back: {}", f.what)),
                input.to_json(),
            )),
            _ => {}
        }
        if let Some(v) = other {
            viols.push((v, input.to_json()));
        }
    }
    // 2. regressions
    let dir = Path::new(VERIF_DIR).join("regressions").join(sid);
    if let Ok(rd) = std::fs::read_dir(&dir) {
        let mut files: Vec<_> = rd.filter_map(Result::ok).map(|e| e.path()).filter(|p| p.extension().is_some_and(|e| e == "json")).collect();
        files.sort();
        for p in files {
            let Ok(s) = std::fs::read_to_string(&p) else { continue };
            let Ok(v) = serde_json::from_str::<Value>(&s) else { continue };
            let Some(input) = v.get("input").and_then(Input::from_json) else { continue };
            n += 1;
            let c = Ctx { tier: Tier::Quick, known: known.clone(), want_sample: false, strict: false };
            let out = prop.run(&input, &c);
            if let Some(e) = out.harness_error {
                herr.push(e);
            }
            if let Some(v) = out.violations.iter().find(|v| !known.contains(&v.sig)) {
                viols.push((v.clone(), input.to_json()));
            }
        }
    }
    (lines, viols, n, herr)
}

pub fn parent(prop: &dyn Property, tier: Tier, seed: u64) -> i32 {
    let t0 = Instant::now();
    let id = prop.id();
    let exe = std::env::current_exe().expect("current_exe");
    let k = std::env::var("VERIF_WORKERS").ok().and_then(|s| s.parse().ok()).unwrap_or_else(|| prop.workers(tier));
    let budget = prop.worker_budget(tier);

    // saved inputs run in a child as well (RunnerLab must not share a process with anything)
    let mut children = vec![];
    for i in 0..=k {
        let mut cmd = Command::new(&exe);
        if i == k {
            cmd.args(["saved", id, tier.name()]);
        } else {
            cmd.args(["worker", id, tier.name(), &i.to_string(), &k.to_string()]);
        }
        cmd.env("VERIF_SEED", seed.to_string()).stdout(Stdio::piped()).stderr(Stdio::inherit());
        let child = cmd.spawn().expect("spawn worker");
        children.push(child);
    }

    let mut evaluations = 0u64;
    let mut nontrivial: BTreeSet<u64> = BTreeSet::new();
    let mut labels: BTreeMap<String, u64> = BTreeMap::new();
    let mut counters: BTreeMap<String, u64> = BTreeMap::new();
    let mut samples: Vec<Value> = vec![];
    let mut trivial_samples: Vec<Value> = vec![];
    let mut excluded = 0u64;
    let mut known_hits: BTreeMap<String, u64> = BTreeMap::new();
    let mut failures: Vec<Value> = vec![];
    let mut harness_errors: Vec<String> = vec![];
    let mut exh: Vec<(String, bool)> = vec![];
    let (mut exh_included, mut exh_truncated) = (0u64, 0u64);
    let mut lines: Vec<String> = vec![];
    let mut saved_n = 0u64;
    let mut inconclusive = false;

    // Reader threads so that a slow worker does not block the others' pipes.
    let mut handles = vec![];
    for mut ch in children {
        let stdout = ch.stdout.take().unwrap();
        let h = std::thread::spawn(move || {
            let (tx, rx) = std::sync::mpsc::channel::<Vec<String>>();
            let rd = std::thread::spawn(move || {
                let mut v = vec![];
                for l in BufReader::new(stdout).lines().map_while(Result::ok) {
                    v.push(l);
                }
                let _ = tx.send(v);
            });
            let start = Instant::now();
            let mut timed_out = false;
            let status = loop {
                match ch.try_wait() {
                    Ok(Some(s)) => break Some(s),
                    Ok(None) => {
                        if start.elapsed() > budget {
                            let _ = ch.kill();
                            let _ = ch.wait();
                            timed_out = true;
                            break None;
                        }
                        std::thread::sleep(Duration::from_millis(20));
                    }
                    Err(_) => break None,
                }
            };
            let out = rx.recv_timeout(Duration::from_secs(10)).unwrap_or_default();
            let _ = rd.join();
            (out, status, timed_out)
        });
        handles.push(h);
    }
    for h in handles {
        let (out, status, timed_out) = h.join().expect("reader thread");
        if timed_out {
            inconclusive = true;
            harness_errors.push("worker exceeded its wall-clock budget (killed)".into());
        }
        if let Some(s) = status {
            if !s.success() {
                harness_errors.push(format!("worker exited with {s}"));
            }
        }
        for l in out {
            let Ok(v) = serde_json::from_str::<Value>(&l) else {
                harness_errors.push(format!("unparsable worker line: {l}"));
                continue;
            };
            match v["type"].as_str() {
                Some("stats") => {
                    evaluations += v["evaluations"].as_u64().unwrap_or(0);
                    for h in v["nontrivial"].as_array().into_iter().flatten() {
                        nontrivial.insert(h.as_u64().unwrap_or(0));
                    }
                    for (m, key) in [(&mut labels, "labels"), (&mut counters, "counters"), (&mut known_hits, "known_hits")] {
                        for (k, n) in v[key].as_object().into_iter().flatten() {
                            *m.entry(k.clone()).or_default() += n.as_u64().unwrap_or(0);
                        }
                    }
                    for s in v["samples"].as_array().into_iter().flatten() {
                        if samples.len() < 4 {
                            samples.push(s.clone());
                        }
                    }
                    for s in v["trivial_samples"].as_array().into_iter().flatten() {
                        if trivial_samples.is_empty() {
                            trivial_samples.push(s.clone());
                        }
                    }
                    excluded += v["excluded"].as_u64().unwrap_or(0);
                    for e in v["harness_errors"].as_array().into_iter().flatten() {
                        harness_errors.push(e.as_str().unwrap_or("").to_string());
                    }
                }
                Some("failure") => failures.push(v),
                Some("harness_error") => harness_errors.push(v["msg"].as_str().unwrap_or("").to_string()),
                Some("exhaustive") => {
                    exh.push((v["description"].as_str().unwrap_or("").to_string(), v["complete"].as_bool().unwrap_or(false)));
                    exh_included += v["included"].as_u64().unwrap_or(0);
                    exh_truncated += v["truncated"].as_u64().unwrap_or(0);
                }
                Some("line") => lines.push(v["text"].as_str().unwrap_or("").to_string()),
                Some("saved") => saved_n += v["n"].as_u64().unwrap_or(0),
                _ => {}
            }
        }
    }

    // --- verdict
    let mut exit = 0;
    for l in &lines {
        println!("{l}");
    }
    let mut seen_sigs = BTreeSet::new();
    for f in &failures {
        let sig = f["sig"].as_str().unwrap_or("?");
        if !seen_sigs.insert(sig.to_string()) {
            continue;
        }
        let p = write_replay(id, sig, f["msg"].as_str().unwrap_or(""), &f["input"], &f["decoded"], f["origin"].as_str().unwrap_or(""));
        println!("VIOLATION property={id} replay={}", p.display());
        println!("  signature: {sig}");
        println!("  message:   {}", f["msg"].as_str().unwrap_or(""));
        exit = 1;
    }
    // generator health
    let mut degenerate = vec![];
    if exit == 0 {
        for (label, floor) in prop.floors() {
            let n = labels.get(label).copied().unwrap_or(0);
            if evaluations > 0 && (n as f64) < floor * evaluations as f64 {
                degenerate.push(format!("label `{label}` {n}/{evaluations} below floor {floor}"));
            }
        }
    }
    if exit == 0 && (!harness_errors.is_empty() || !degenerate.is_empty() || inconclusive) {
        exit = 2;
        for e in harness_errors.iter().take(10) {
            println!("HARNESS-ERROR property={id} {e}");
        }
        for d in &degenerate {
            println!("GENERATOR-DEGENERATE property={id} {d}");
        }
        if inconclusive {
            println!("INCONCLUSIVE property={id} (time budget hit)");
        }
    }

    // --- evidence
    samples.extend(trivial_samples);
    let exhaustive_complete = !exh.is_empty() && exh.iter().all(|e| e.1);
    let mut coverage = json!({
        "evaluations": evaluations,
        "distinct_nontrivial": nontrivial.len(),
        "rule": prop.rule(),
        "samples": samples,
        "labels": labels,
        "counters": counters,
        "excluded_known": excluded,
        "known_finding_hits": known_hits,
        "saved_inputs_replayed": saved_n,
        "workers": k,
        "exhaustive": exhaustive_complete,
    });
    if let Some((d, _)) = exh.first() {
        coverage["exhaustive_subspace"] = json!(format!("{d} [members enumerated completely: {exh_included}; candidates left out because their tree exceeded the cap (explored up to the cap only): {exh_truncated}]"));
    }
    // libFuzzer campaign run by `./check <ID> thorough` before this process (see /verif/check)
    if let Ok(p) = std::env::var("VLAB_FUZZ_STATS") {
        if let Some(v) = std::fs::read_to_string(&p).ok().and_then(|s| serde_json::from_str::<Value>(&s).ok()) {
            coverage["fuzz_execs"] = v["execs"].clone();
            coverage["fuzz_campaign"] = v;
        }
    }
    if let Ok(p) = std::env::var("VLAB_TRACING_STATS") {
        if let Some(v) = std::fs::read_to_string(&p).ok().and_then(|s| serde_json::from_str::<Value>(&s).ok()) {
            coverage["tracing_build_campaign"] = json!({
                "what": "same property judged on the crate built with feature `tracing` (vtrace: Cucumber::run + init_tracing(), one process per case, callbacks leaving child spans alive)",
                "evaluations": v["coverage"]["evaluations"], "distinct_nontrivial": v["coverage"]["distinct_nontrivial"], "labels": v["coverage"]["labels"],
                "violations": v["violations"], "exit": v["exit"], "wall_s": v["wall_s"],
            });
        }
    }
    if let Ok(p) = std::env::var("VLAB_ZOO_SWEEP") {
        if let Some(v) = std::fs::read_to_string(&p).ok().and_then(|s| serde_json::from_str::<Value>(&s).ok()) {
            coverage["generated_zoo_sweep"] = v;
        }
    }
    let ev = json!({
        "property_id": id,
        "tier": tier.name(),
        "seed": seed,
        "level": "exploration",
        "coverage": coverage,
        "assumptions": prop.assumptions(),
        "wall_s": (t0.elapsed().as_secs_f64() * 100.0).round() / 100.0,
        "violations": failures.len(),
        "exit": exit,
    });
    if let Ok(out) = std::env::var("VLAB_STATS_OUT") {
        // a second campaign for the same property (see /verif/check): its record is merged into the
        // evidence file by the main campaign instead of overwriting it
        std::fs::write(out, serde_json::to_string_pretty(&ev).unwrap()).expect("write campaign record");
    } else {
        let dir = Path::new(VERIF_DIR).join("evidence");
        let _ = std::fs::create_dir_all(&dir);
        std::fs::write(dir.join(format!("{id}.json")), serde_json::to_string_pretty(&ev).unwrap()).expect("write evidence");
    }
    println!(
        "{id} {}: evaluations={evaluations} distinct_nontrivial={} excluded_known={excluded} known_hits={} wall={:.1}s exit={exit}",
        tier.name(),
        nontrivial.len(),
        known_hits.values().sum::<u64>(),
        t0.elapsed().as_secs_f64()
    );
    exit
}

/// `vcheck saved <id> <tier>`: regressions and known-finding reproducers.
pub fn saved(prop: &dyn Property, tier: Tier) {
    let (lines, viols, n, herr) = run_saved(prop, tier);
    for l in lines {
        emit(&json!({"type": "line", "text": l}));
    }
    for (v, input) in viols {
        emit(&json!({"type": "failure", "sig": v.sig, "msg": v.msg, "input": input, "origin": "saved"}));
    }
    for e in herr {
        emit(&json!({"type": "harness_error", "msg": e}));
    }
    emit(&json!({"type": "saved", "n": n}));
}

/// `vcheck find <id> <signature>`: searches random cases (strict mode: nothing excluded or tolerated)
/// for a violation with exactly this signature, minimises it while it keeps the signature, and prints
/// the input as JSON. Used to (re)generate the reproducers stored in known_findings.json.
pub fn find_signature(prop: &dyn Property, sig: &str, seed: u64, max_cases: u64) -> Option<Input> {
    let (la, lb) = prop.tape_lens(Tier::Quick);
    let ctx = Ctx { tier: Tier::Quick, known: BTreeSet::new(), want_sample: false, strict: true };
    let hit = |i: &Input| prop.run(i, &ctx).violations.iter().any(|v| v.sig == sig);
    for n in 0..max_cases {
        let input = Input { a: crate::tape::tape_from_seed(mix(seed, n), la), b: crate::tape::tape_from_seed(mix(seed ^ 0x5EED, n), lb) };
        if hit(&input) {
            return Some(minimize(input, &hit));
        }
    }
    None
}

/// `vcheck replay <id> <file>`
pub fn replay(prop: &dyn Property, file: &str) -> i32 {
    let s = std::fs::read_to_string(file).expect("read replay file");
    let v: Value = serde_json::from_str(&s).expect("replay file JSON");
    let input = v.get("input").and_then(Input::from_json).expect("replay file has no input");
    let ctx = Ctx { tier: Tier::Quick, known: BTreeSet::new(), want_sample: true, strict: true };
    let mut bad = false;
    for round in 0..3 {
        let out = prop.run(&input, &ctx);
        if round == 0 {
            if let Some(s) = &out.sample {
                println!("decoded case:\n{}", serde_json::to_string_pretty(s).unwrap());
            }
        }
        if let Some(e) = &out.harness_error {
            println!("HARNESS-ERROR {e}");
        }
        for v in &out.violations {
            println!("round {round}: VIOLATION property={} replay={file}\n  signature: {}\n  message: {}", prop.id(), v.sig, v.msg);
            bad = true;
        }
        if bad {
            break;
        }
    }
    if bad {
        1
    } else {
        println!("no violation reproduced");
        0
    }
}
