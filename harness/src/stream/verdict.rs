//! C01 (stream -> verdict half): the run verdict reported by every built-in stats pipeline, by
//! `run_and_exit` and by the libtest suite line equals the verdict computed from the stream.

use std::{
    collections::HashMap,
    panic::{self, AssertUnwindSafe},
};

use cucumber::{
    Cucumber, Parser, Runner, Writer, cli, gherkin, parser,
    writer::{self, Coloring, Stats as _, Verbosity},
};
use futures::{executor::block_on, stream};

use super::{Ev, Key, Sink, StepRes, What, decode};
use crate::{engine::Violation, lab::W};

fn v(sig: &str, msg: String) -> Violation {
    Violation::new(format!("C01/{sig}"), msg)
}

pub trait DynStats {
    fn handle(&mut self, e: Ev);
    fn failed(&self) -> bool;
    fn counts(&self) -> [usize; 6];
}

struct Ds<T, C> {
    w: T,
    cli: C,
}

macro_rules! dyn_stats {
    ($ty:ty, $cli:ty) => {
        impl DynStats for Ds<$ty, $cli> {
            fn handle(&mut self, e: Ev) {
                block_on(self.w.handle_event(e, &self.cli));
            }
            fn failed(&self) -> bool {
                self.w.execution_has_failed()
            }
            fn counts(&self) -> [usize; 6] {
                [self.w.passed_steps(), self.w.skipped_steps(), self.w.failed_steps(), self.w.retried_steps(), self.w.parsing_errors(), self.w.hook_errors()]
            }
        }
    };
}

type BCli = writer::basic::Cli;
type LCli = writer::libtest::Cli;
type TCli = cli::Compose<BCli, LCli>;
type OCli = cli::Compose<LCli, BCli>;
type SB = writer::Summarize<writer::Normalize<W, writer::Basic<Sink>>>;
type NL = writer::Normalize<W, writer::Libtest<W, Sink>>;
type TeeSN = writer::Tee<SB, NL>;
type OrFn = fn(&Ev, &OCli) -> bool;
type OrNS = writer::Or<NL, SB, OrFn>;

dyn_stats!(SB, BCli);
dyn_stats!(NL, LCli);
dyn_stats!(TeeSN, TCli);
dyn_stats!(OrNS, OCli);
dyn_stats!(writer::FailOnSkipped<SB>, BCli);
dyn_stats!(writer::FailOnSkipped<NL>, LCli);
dyn_stats!(writer::FailOnSkipped<TeeSN>, TCli);
dyn_stats!(writer::Repeat<W, SB>, BCli);
dyn_stats!(writer::Repeat<W, NL>, LCli);
dyn_stats!(writer::FailOnSkipped<writer::Repeat<W, SB>>, BCli);
dyn_stats!(writer::Repeat<W, TeeSN>, TCli);
dyn_stats!(writer::FailOnSkipped<OrNS>, OCli);

fn bcli() -> BCli {
    BCli { verbose: 0, color: Coloring::Never }
}
fn sb(sink: &Sink) -> SB {
    writer::Summarize::new(writer::Basic::new(sink.clone(), Coloring::Never, Verbosity::Default))
}
fn nl(sink: &Sink) -> NL {
    writer::Libtest::new(sink.clone())
}
fn always_left(_: &Ev, _: &OCli) -> bool {
    true
}
fn always_right(_: &Ev, _: &OCli) -> bool {
    false
}

pub const N_PIPELINES: usize = 13;

pub struct Pipeline {
    pub w: Box<dyn DynStats>,
    pub name: &'static str,
    pub fail_on_skipped: bool,
    /// sink that receives libtest JSON lines, if any
    pub libtest_sink: Option<Sink>,
}

pub fn pipeline(i: usize) -> Pipeline {
    let (s1, s2) = (Sink::default(), Sink::default());
    let tcli = || TCli { left: bcli(), right: LCli::default() };
    let ocli = || OCli { left: LCli::default(), right: bcli() };
    let mk = |w: Box<dyn DynStats>, name, fos, lt: Option<Sink>| Pipeline { w, name, fail_on_skipped: fos, libtest_sink: lt };
    match i {
        0 => mk(Box::new(Ds { w: sb(&s1), cli: bcli() }), "Summarize<Normalize<Basic>>", false, None),
        1 => mk(Box::new(Ds { w: nl(&s2), cli: LCli::default() }), "Normalize<Libtest>", false, Some(s2.clone())),
        2 => mk(Box::new(Ds { w: writer::Tee::new(sb(&s1), nl(&s2)), cli: tcli() }), "Tee<Summarize<Normalize<Basic>>, Normalize<Libtest>>", false, Some(s2.clone())),
        3 => mk(Box::new(Ds { w: writer::Or::new(nl(&s2), sb(&s1), always_left as OrFn), cli: ocli() }), "Or<Normalize<Libtest>, Summarize<..>, left>", false, Some(s2.clone())),
        4 => mk(Box::new(Ds { w: writer::Or::new(nl(&s2), sb(&s1), always_right as OrFn), cli: ocli() }), "Or<Normalize<Libtest>, Summarize<..>, right>", false, None),
        5 => mk(Box::new(Ds { w: writer::FailOnSkipped::new(sb(&s1)), cli: bcli() }), "FailOnSkipped<Summarize<Normalize<Basic>>>", true, None),
        6 => mk(Box::new(Ds { w: writer::FailOnSkipped::new(nl(&s2)), cli: LCli::default() }), "FailOnSkipped<Normalize<Libtest>>", true, Some(s2.clone())),
        7 => mk(Box::new(Ds { w: writer::FailOnSkipped::new(writer::Tee::new(sb(&s1), nl(&s2))), cli: tcli() }), "FailOnSkipped<Tee<..>>", true, Some(s2.clone())),
        8 => mk(Box::new(Ds { w: writer::Repeat::<W, _>::failed(sb(&s1)), cli: bcli() }), "Repeat::failed<Summarize<Normalize<Basic>>>", false, None),
        9 => mk(Box::new(Ds { w: writer::Repeat::<W, _>::skipped(nl(&s2)), cli: LCli::default() }), "Repeat::skipped<Normalize<Libtest>>", false, None),
        10 => mk(Box::new(Ds { w: writer::FailOnSkipped::new(writer::Repeat::<W, _>::failed(sb(&s1))), cli: bcli() }), "FailOnSkipped<Repeat::failed<Summarize<..>>>", true, None),
        11 => mk(Box::new(Ds { w: writer::Repeat::<W, _>::failed(writer::Tee::new(sb(&s1), nl(&s2))), cli: tcli() }), "Repeat::failed<Tee<..>>", false, None),
        _ => mk(Box::new(Ds { w: writer::FailOnSkipped::new(writer::Or::new(nl(&s2), sb(&s1), always_left as OrFn)), cli: ocli() }), "FailOnSkipped<Or<Normalize<Libtest>, .., left>>", true, Some(s2.clone())),
    }
}

#[derive(Clone, Debug, Default)]
pub struct Expected {
    pub parser_errors: usize,
    pub final_failures: usize,
    pub nonfinal_failures: usize,
    pub nonfinal_hook_failures: usize,
    pub final_hook_failures: usize,
    pub final_step_failures: usize,
    pub skipped_not_allowed: usize,
    pub skipped_allowed: usize,
}

impl Expected {
    pub fn failed(&self, fail_on_skipped: bool) -> bool {
        self.parser_errors > 0 || self.final_failures > 0 || (fail_on_skipped && self.skipped_not_allowed > 0)
    }
}

/// Verdict facts computed from the stream alone (reading R1).
pub fn expected(keys: &[Key], allow_skipped: &HashMap<usize, bool>) -> Expected {
    let mut x = Expected::default();
    for k in keys {
        let fin = k.retries.is_none_or(|r| r.1 == 0);
        match &k.what {
            What::ParserError(_) => x.parser_errors += 1,
            What::HookFailed(..) => {
                if fin {
                    x.final_failures += 1;
                    x.final_hook_failures += 1;
                } else {
                    x.nonfinal_failures += 1;
                    x.nonfinal_hook_failures += 1;
                }
            }
            What::Step { res, .. } => match res {
                StepRes::FailedNotFound => {
                    x.final_failures += 1;
                    x.final_step_failures += 1;
                }
                StepRes::FailedPanic(_) | StepRes::FailedAmbiguous => {
                    if fin {
                        x.final_failures += 1;
                        x.final_step_failures += 1;
                    } else {
                        x.nonfinal_failures += 1;
                    }
                }
                StepRes::Skipped => {
                    if allow_skipped.get(&k.s).copied().unwrap_or(false) {
                        x.skipped_allowed += 1;
                    } else {
                        x.skipped_not_allowed += 1;
                    }
                }
                _ => {}
            },
            _ => {}
        }
    }
    x
}

/// Last `suite` line of libtest JSON output: Some(true) = failed, Some(false) = ok.
pub fn libtest_suite_failed(bytes: &[u8]) -> Option<bool> {
    let text = String::from_utf8_lossy(bytes);
    let mut res = None;
    for l in text.lines() {
        if let Ok(v) = serde_json::from_str::<serde_json::Value>(l) {
            if v["type"] == "suite" {
                match v["event"].as_str() {
                    Some("ok") => res = Some(false),
                    Some("failed") => res = Some(true),
                    _ => {}
                }
            }
        }
    }
    res
}

pub struct VerdictOut {
    pub violations: Vec<Violation>,
    pub expected: Expected,
}

/// Feeds the stream to the chosen pipelines and compares verdicts.
pub fn check(stream: &[Ev], allow_skipped: &HashMap<usize, bool>, pipelines: &[usize]) -> VerdictOut {
    let keys: Vec<Key> = stream.iter().map(decode).collect();
    let x = expected(&keys, allow_skipped);
    let mut viol = vec![];
    let shape = if x.nonfinal_hook_failures > 0 { "non-final-hook-failure" } else { "other" };
    for pi in pipelines {
        let mut p = pipeline(*pi);
        for e in stream {
            p.w.handle(e.clone());
        }
        let exp = x.failed(p.fail_on_skipped);
        let got = p.w.failed();
        if got != exp {
            viol.push(v(
                &format!("verdict/{shape}"),
                format!("pipeline {}: execution_has_failed() = {got}, stream says {exp} ({x:?}); writer counters [passed, skipped, failed, retried, parsing, hooks] = {:?}", p.name, p.w.counts()),
            ));
        }
        if let Some(s) = &p.libtest_sink {
            let lt = libtest_suite_failed(&s.0.borrow());
            match lt {
                None => viol.push(v("libtest-suite-line", format!("pipeline {}: no libtest suite result line", p.name))),
                Some(f) if f != exp => viol.push(v(&format!("libtest-suite-verdict/{shape}"), format!("pipeline {}: libtest suite line says failed={f}, stream says {exp} ({x:?})", p.name))),
                _ => {}
            }
        }
    }
    VerdictOut { violations: viol, expected: x }
}

// ------------------------------------------------------------------------------------------
// end-to-end: Cucumber::run_and_exit over a replaying runner

pub struct NullParser;

impl Parser<()> for NullParser {
    type Cli = cli::Empty;
    type Output = stream::Empty<parser::Result<gherkin::Feature>>;

    fn parse(self, (): (), _: cli::Empty) -> Self::Output {
        stream::empty()
    }
}

pub struct ReplayRunner(pub Vec<Ev>);

impl Runner<W> for ReplayRunner {
    type Cli = cli::Empty;
    type EventStream = stream::Iter<std::vec::IntoIter<Ev>>;

    fn run<S>(self, _: S, _: cli::Empty) -> Self::EventStream
    where
        S: futures::Stream<Item = parser::Result<gherkin::Feature>> + 'static,
    {
        stream::iter(self.0)
    }
}

/// `run_and_exit` panics iff the run failed, and its message names only non-zero categories.
pub fn check_run_and_exit(stream: &[Ev], allow_skipped: &HashMap<usize, bool>, fail_on_skipped: bool, libtest: bool) -> Vec<Violation> {
    let keys: Vec<Key> = stream.iter().map(decode).collect();
    let x = expected(&keys, allow_skipped);
    let exp = x.failed(fail_on_skipped);
    let shape = if x.nonfinal_hook_failures > 0 { "non-final-hook-failure" } else { "other" };
    let sink = Sink::default();
    let opts = cli::Opts::<cli::Empty, cli::Empty, BCli, cli::Empty> { re_filter: None, tags_filter: None, parser: cli::Empty, runner: cli::Empty, writer: bcli(), custom: cli::Empty };
    let lopts = cli::Opts::<cli::Empty, cli::Empty, LCli, cli::Empty> { re_filter: None, tags_filter: None, parser: cli::Empty, runner: cli::Empty, writer: LCli::default(), custom: cli::Empty };
    let res = if libtest && fail_on_skipped {
        let c = Cucumber::<W, _, (), _, _, cli::Empty>::custom(NullParser, ReplayRunner(stream.to_vec()), nl(&sink)).fail_on_skipped().with_cli(lopts);
        panic::catch_unwind(AssertUnwindSafe(|| block_on(c.run_and_exit(()))))
    } else if libtest {
        let c = Cucumber::<W, _, (), _, _, cli::Empty>::custom(NullParser, ReplayRunner(stream.to_vec()), nl(&sink)).with_cli(lopts);
        panic::catch_unwind(AssertUnwindSafe(|| block_on(c.run_and_exit(()))))
    } else if fail_on_skipped {
        let c = Cucumber::<W, _, (), _, _, cli::Empty>::custom(NullParser, ReplayRunner(stream.to_vec()), sb(&sink)).fail_on_skipped().with_cli(opts);
        panic::catch_unwind(AssertUnwindSafe(|| block_on(c.run_and_exit(()))))
    } else {
        let c = Cucumber::<W, _, (), _, _, cli::Empty>::custom(NullParser, ReplayRunner(stream.to_vec()), sb(&sink)).with_cli(opts);
        panic::catch_unwind(AssertUnwindSafe(|| block_on(c.run_and_exit(()))))
    };
    let mut viol = vec![];
    match res {
        Ok(()) => {
            if exp {
                viol.push(v(&format!("run-and-exit/{shape}"), format!("run_and_exit returned normally although the stream contains a final failure ({x:?})")));
            }
        }
        Err(p) => {
            let msg = p.downcast_ref::<String>().cloned().or_else(|| p.downcast_ref::<&str>().map(|s| (*s).to_string())).unwrap_or_default();
            if !exp {
                viol.push(v(&format!("run-and-exit/{shape}"), format!("run_and_exit panicked with {msg:?} although nothing failed finally ({x:?})")));
            } else {
                // the message names only categories that occurred
                let skipped_as_failed = if fail_on_skipped { x.skipped_not_allowed } else { 0 };
                let steps = x.final_step_failures + skipped_as_failed;
                let checks = [("step", steps > 0, " failed"), ("parsing error", x.parser_errors > 0, ""), ("hook error", x.final_hook_failures + x.nonfinal_hook_failures > 0, "")];
                for (word, present, _) in checks {
                    let named = msg.contains(word);
                    if named && !present {
                        viol.push(v("run-and-exit-message", format!("panic message {msg:?} names `{word}` although the stream has none ({x:?})")));
                    }
                }
                if !msg.contains("step") && !msg.contains("parsing error") && !msg.contains("hook error") {
                    viol.push(v("run-and-exit-message", format!("panic message {msg:?} names no failure category")));
                }
            }
        }
    }
    viol
}
