//! C12: summary counters equal what the (normalised) event stream contains.

use std::collections::BTreeMap;

use cucumber::{Writer as _, cli, writer, writer::Stats as _};
use futures::executor::block_on;

use super::{Ev, Key, Rec, Rec1, StepRes, What, decode};
use crate::{engine::Violation, lab::W};

fn v(sig: &str, msg: String) -> Violation {
    Violation::new(format!("C12/{sig}"), msg)
}

#[derive(Debug, Default, PartialEq, Clone)]
pub struct Recount {
    pub steps_passed: usize,
    pub steps_skipped: usize,
    pub steps_failed: usize,
    pub steps_retried: usize,
    pub parsing_errors: usize,
    pub hook_errors: usize,
    pub features: usize,
    pub rules: usize,
    pub sc_passed: usize,
    pub sc_skipped: usize,
    pub sc_failed: usize,
    /// scenarios whose last completed attempt failed with retries left (aborted chain, reading R2)
    pub sc_aborted: usize,
    pub sc_retried_max: usize,
    // shapes of known findings present in the stream
    pub has_nonfinal_hook_failure: bool,
    pub has_retried_without_own_steps: bool,
    pub has_hook_failure_after_retry: bool,
    pub has_retried_attempt: bool,
    pub has_skip: bool,
}

type AttemptId = (usize, usize, usize, Option<(usize, usize)>);

/// Independent recount from the stream, exactly as the property words it.
pub fn recount(keys: &[Key], own_steps_of: &dyn Fn(usize) -> usize) -> Recount {
    let mut c = Recount::default();
    let mut attempts: Vec<(AttemptId, Vec<&Key>)> = vec![];
    let mut idx: BTreeMap<AttemptId, usize> = BTreeMap::new();
    for k in keys {
        match &k.what {
            What::ParserError(_) => c.parsing_errors += 1,
            What::FeatureStarted => c.features += 1,
            What::RuleStarted => c.rules += 1,
            _ => {}
        }
        if k.is_scenario_event() {
            let id = k.attempt();
            let i = *idx.entry(id).or_insert_with(|| {
                attempts.push((id, vec![]));
                attempts.len() - 1
            });
            attempts[i].1.push(k);
        }
    }
    let is_final = |id: &AttemptId| id.3.is_none_or(|r| r.1 == 0);
    for (id, evs) in &attempts {
        for k in evs {
            match &k.what {
                What::Step { res, .. } => match res {
                    StepRes::Passed => c.steps_passed += 1,
                    StepRes::Skipped => {
                        c.steps_skipped += 1;
                        c.has_skip = true;
                    }
                    StepRes::FailedNotFound => c.steps_failed += 1,
                    StepRes::FailedPanic(_) | StepRes::FailedAmbiguous => {
                        if is_final(id) {
                            c.steps_failed += 1;
                        } else {
                            c.steps_retried += 1;
                        }
                    }
                    StepRes::Started => {}
                },
                What::HookFailed(..) => {
                    c.hook_errors += 1;
                    if !is_final(id) {
                        c.has_nonfinal_hook_failure = true;
                    }
                }
                _ => {}
            }
        }
    }
    // scenarios, by their last completed attempt
    let mut by_sc: BTreeMap<(usize, usize, usize), Vec<usize>> = BTreeMap::new();
    for (i, (id, _)) in attempts.iter().enumerate() {
        by_sc.entry((id.0, id.1, id.2)).or_default().push(i);
    }
    for (sc, idxs) in &by_sc {
        let completed: Vec<usize> = idxs.iter().copied().filter(|i| attempts[*i].1.iter().any(|k| k.what == What::ScFinished)).collect();
        let Some(last) = completed.last() else { continue };
        let (id, evs) = &attempts[*last];
        let step_fail = evs.iter().any(|k| matches!(&k.what, What::Step { res: StepRes::FailedPanic(_) | StepRes::FailedAmbiguous | StepRes::FailedNotFound, .. }));
        let notfound = evs.iter().any(|k| matches!(&k.what, What::Step { res: StepRes::FailedNotFound, .. }));
        let hook_fail = evs.iter().any(|k| matches!(k.what, What::HookFailed(..)));
        let skip = evs.iter().any(|k| matches!(&k.what, What::Step { res: StepRes::Skipped, .. }));
        if (step_fail || hook_fail) && !is_final(id) && !notfound {
            c.sc_aborted += 1;
        } else if step_fail || hook_fail {
            c.sc_failed += 1;
        } else if skip {
            c.sc_skipped += 1;
        } else {
            c.sc_passed += 1;
        }
        let nonfinal_failed = |i: &usize| {
            let (id, evs) = &attempts[*i];
            !is_final(id) && evs.iter().any(|k| matches!(&k.what, What::Step { res: StepRes::FailedPanic(_) | StepRes::FailedAmbiguous, .. }) || matches!(k.what, What::HookFailed(..)))
        };
        if idxs.iter().any(nonfinal_failed) {
            c.sc_retried_max += 1;
        }
        if idxs.len() > 1 {
            c.has_retried_attempt = true;
            if own_steps_of(sc.2) == 0 {
                c.has_retried_without_own_steps = true;
            }
            // (D5b: only a Before-hook failure meets the stale indicator when the scenario has own
            // steps; without own steps the shape above already applies)
            if idxs[1..].iter().any(|i| attempts[*i].1.iter().any(|k| matches!(k.what, What::HookFailed(true, _)))) {
                c.has_hook_failure_after_retry = true;
            }
        }
    }
    c
}

/// Parses the summary text back into numbers (text produced with `Coloring::Never`).
#[derive(Debug, Default, PartialEq)]
pub struct ParsedSummary {
    pub features: usize,
    pub rules: usize,
    pub scenarios_total: usize,
    pub sc: [usize; 4],
    pub steps_total: usize,
    pub st: [usize; 4],
    pub parsing_errors: usize,
    pub hook_errors: usize,
}

pub fn parse_summary(text: &str) -> Result<ParsedSummary, String> {
    let mut p = ParsedSummary::default();
    let mut lines = text.lines();
    if lines.next() != Some("[Summary]") {
        return Err(format!("summary does not start with [Summary]: {text:?}"));
    }
    let num_word = |l: &str| -> Option<(usize, String)> {
        let (n, rest) = l.split_once(' ')?;
        Some((n.parse().ok()?, rest.to_string()))
    };
    let stats = |rest: &str| -> Result<[usize; 4], String> {
        // "scenarios (1 passed, 2 skipped, 3 failed with 1 retry)"
        let mut out = [0usize; 4];
        let Some(open) = rest.find('(') else { return Ok(out) };
        let inner = rest[open + 1..].strip_suffix(')').ok_or_else(|| format!("unbalanced stats: {rest}"))?;
        let (main, retr) = match inner.split_once(" with ") {
            Some((m, r)) => (m, Some(r)),
            None => (inner, None),
        };
        for part in main.split(", ").filter(|s| !s.is_empty()) {
            let (n, w) = part.split_once(' ').ok_or_else(|| format!("bad stats part {part:?}"))?;
            let n: usize = n.parse().map_err(|_| format!("bad number in {part:?}"))?;
            match w {
                "passed" => out[0] = n,
                "skipped" => out[1] = n,
                "failed" => out[2] = n,
                _ => return Err(format!("unknown stats word {w:?}")),
            }
        }
        if let Some(r) = retr {
            let (n, w) = r.split_once(' ').ok_or_else(|| format!("bad retry part {r:?}"))?;
            if w != "retry" && w != "retries" {
                return Err(format!("bad retry word {w:?}"));
            }
            out[3] = n.parse().map_err(|_| format!("bad number in {r:?}"))?;
        }
        Ok(out)
    };
    for l in lines {
        let Some((n, rest)) = num_word(l) else { return Err(format!("unparsable summary line {l:?}")) };
        if rest.starts_with("feature") {
            p.features = n;
        } else if rest.starts_with("rule") {
            p.rules = n;
        } else if rest.starts_with("scenario") {
            p.scenarios_total = n;
            p.sc = stats(&rest)?;
        } else if rest.starts_with("step") {
            p.steps_total = n;
            p.st = stats(&rest)?;
        } else if rest.starts_with("parsing error") || rest.starts_with("hook error") {
            // "1 parsing error, 2 hook errors"
            for part in l.split(", ") {
                let (n, w) = num_word(part).ok_or_else(|| format!("bad error part {part:?}"))?;
                if w.starts_with("parsing error") {
                    p.parsing_errors = n;
                } else if w.starts_with("hook error") {
                    p.hook_errors = n;
                } else {
                    return Err(format!("bad error part {part:?}"));
                }
            }
        } else {
            return Err(format!("unknown summary line {l:?}"));
        }
    }
    Ok(p)
}

pub struct C12Out {
    pub violations: Vec<Violation>,
    pub recount: Recount,
}

/// `stream` must be normalised. `replay`: events handled again after run-Finished.
pub fn check(stream: &[Ev], replay: &[Ev], own_steps_of: &dyn Fn(usize) -> usize, with_repeat: u8) -> C12Out {
    let mut viol = vec![];
    let keys: Vec<Key> = stream.iter().map(decode).collect();
    let c = recount(&keys, own_steps_of);
    let rec = Rec::default();

    // run
    let (st, sc, pe, he, failed) = if with_repeat > 0 {
        let inner = writer::Summarize::new(rec.clone());
        let mut w = if with_repeat == 1 { writer::Repeat::<W, _>::failed(inner) } else { writer::Repeat::<W, _>::skipped(inner) };
        for e in stream {
            block_on(w.handle_event(e.clone(), &cli::Empty));
        }
        // the counters as a user of `Cucumber::repeat_failed()` reads them: through the wrapper
        {
            use cucumber::writer::Stats as _;
            let through = [w.passed_steps(), w.skipped_steps(), w.failed_steps(), w.retried_steps(), w.parsing_errors(), w.hook_errors()];
            let s = w.inner_writer();
            let inner = [s.passed_steps(), s.skipped_steps(), s.failed_steps(), s.retried_steps(), s.parsing_errors(), s.hook_errors()];
            if through != inner {
                viol.push(v("stats-through-repeat", format!("[passed, skipped, failed, retried, parsing, hooks] read through the Repeat wrapper {through:?}, from the summarizing writer inside {inner:?}")));
            }
            if w.execution_has_failed() != s.execution_has_failed() {
                viol.push(v("stats-through-repeat", format!("execution_has_failed() through the Repeat wrapper {}, inside {}", w.execution_has_failed(), s.execution_has_failed())));
            }
        }
        let s = w.inner_writer();
        (*s.steps_stats(), *s.scenarios_stats(), s.parsing_errors(), s.hook_errors(), s.execution_has_failed())
    } else {
        let mut s = writer::Summarize::new(rec.clone());
        for e in stream {
            block_on(s.handle_event(e.clone(), &cli::Empty));
        }
        let before = (*s.steps_stats(), *s.scenarios_stats(), s.parsing_errors(), s.hook_errors());
        for e in replay {
            block_on(s.handle_event(e.clone(), &cli::Empty));
        }
        let after = (*s.steps_stats(), *s.scenarios_stats(), s.parsing_errors(), s.hook_errors());
        if before != after {
            viol.push(v("replay-changes-stats", format!("events handled after run-Finished changed the counters: {before:?} -> {after:?}")));
        }
        (before.0, before.1, before.2, before.3, s.execution_has_failed())
    };
    let _ = failed;

    // ---- step-level counters (exact)
    let mut mism = vec![];
    if st.passed != c.steps_passed {
        mism.push(format!("steps.passed {} != {}", st.passed, c.steps_passed));
    }
    if st.skipped != c.steps_skipped {
        mism.push(format!("steps.skipped {} != {}", st.skipped, c.steps_skipped));
    }
    if st.failed != c.steps_failed {
        mism.push(format!("steps.failed {} != {}", st.failed, c.steps_failed));
    }
    if st.retried != c.steps_retried {
        mism.push(format!("steps.retried {} != {}", st.retried, c.steps_retried));
    }
    if pe != c.parsing_errors {
        mism.push(format!("parsing_errors {pe} != {}", c.parsing_errors));
    }
    if he != c.hook_errors {
        mism.push(format!("hook_errors {he} != {}", c.hook_errors));
    }
    if !mism.is_empty() {
        viol.push(v("step-counters", mism.join("; ")));
    }
    // ---- scenario classification
    let mut mism = vec![];
    if sc.passed != c.sc_passed {
        mism.push(format!("scenarios.passed {} != {}", sc.passed, c.sc_passed));
    }
    if sc.skipped != c.sc_skipped {
        mism.push(format!("scenarios.skipped {} != {}", sc.skipped, c.sc_skipped));
    }
    if sc.failed < c.sc_failed || sc.failed > c.sc_failed + c.sc_aborted {
        mism.push(format!("scenarios.failed {} not in [{}, {}]", sc.failed, c.sc_failed, c.sc_failed + c.sc_aborted));
    }
    if sc.retried > c.sc_retried_max {
        mism.push(format!("scenarios.retried {} > {} scenarios with a non-final failed attempt", sc.retried, c.sc_retried_max));
    }
    if !mism.is_empty() {
        let shape = if c.has_nonfinal_hook_failure {
            "non-final-hook-failure"
        } else if c.has_retried_without_own_steps {
            "stale-retried-no-own-steps"
        } else if c.has_hook_failure_after_retry {
            "stale-retried-hook-failure"
        } else {
            "other"
        };
        viol.push(v(&format!("scenario-counters/{shape}"), mism.join("; ")));
    }
    // ---- summary text: exactly once, right after run-Finished, parses back to the same numbers
    let log = rec.log.borrow();
    let writes: Vec<usize> = log.iter().enumerate().filter(|(_, r)| matches!(r, Rec1::Write(_))).map(|(i, _)| i).collect();
    if writes.len() != 1 {
        viol.push(v("summary-written-once", format!("summary text written {} times", writes.len())));
    } else {
        let wi = writes[0];
        let prev_is_finished = wi > 0 && matches!(&log[wi - 1], Rec1::Event(k) if k.what == What::RunFinished);
        if !prev_is_finished {
            viol.push(v("summary-position", "summary text is not written right after the inner writer received run-Finished".into()));
        }
        if let Rec1::Write(text) = &log[wi] {
            match parse_summary(text) {
                Err(e) => viol.push(v("summary-text", e)),
                Ok(p) => {
                    let exp = ParsedSummary {
                        features: c.features,
                        rules: c.rules,
                        scenarios_total: sc.passed + sc.skipped + sc.failed,
                        sc: [sc.passed, sc.skipped, sc.failed, sc.retried],
                        steps_total: st.passed + st.skipped + st.failed,
                        st: [st.passed, st.skipped, st.failed, st.retried],
                        parsing_errors: pe,
                        hook_errors: he,
                    };
                    if p != exp {
                        viol.push(v("summary-text", format!("summary text says {p:?}, counters / stream say {exp:?}; text: {text:?}")));
                    }
                }
            }
        }
    }
    C12Out { violations: viol, recount: c }
}
