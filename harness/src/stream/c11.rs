//! C11: `Normalize` reorders any contract-abiding stream losslessly into sequential order.

use std::collections::{BTreeMap, HashMap};

use cucumber::{Writer as _, cli, writer};
use futures::executor::block_on;

use super::{Ev, Key, Rec, What, decode};
use crate::{engine::Violation, lab::W};

fn v(sig: &str, msg: String) -> Violation {
    Violation::new(format!("C11/{sig}"), msg)
}

#[derive(Default, Clone, Debug)]
struct Open {
    f: Option<usize>,
    r: Option<usize>,
    a: Option<(usize, usize, usize, Option<(usize, usize)>)>,
}

fn open_state(out: &[Key]) -> Open {
    let mut o = Open::default();
    for k in out {
        match &k.what {
            What::FeatureStarted => o.f = Some(k.f),
            What::FeatureFinished => o.f = None,
            What::RuleStarted => o.r = Some(k.r),
            What::RuleFinished => o.r = None,
            What::ScStarted => o.a = Some(k.attempt()),
            What::ScFinished => o.a = None,
            _ => {}
        }
    }
    o
}

pub struct C11Stats {
    pub max_buffered: usize,
}

pub fn check(stream: &[Ev], sequential: bool, extra_after_finish: &[Ev]) -> (Vec<Violation>, C11Stats) {
    // every third stream: the writer is cloned in the middle of the run and the clone carries on
    // (a `Normalize` is `Clone`; its clone must hold whatever the original had buffered)
    let clone_at = (stream.len() % 3 == 0).then_some(stream.len() / 2);
    check_cloning(stream, sequential, extra_after_finish, clone_at)
}

pub fn check_cloning(stream: &[Ev], sequential: bool, extra_after_finish: &[Ev], clone_at: Option<usize>) -> (Vec<Violation>, C11Stats) {
    let mut viol = vec![];
    let rec = Rec::default();
    let mut n = writer::Normalize::<W, _>::new(rec.clone());
    let inp: Vec<Key> = stream.iter().map(decode).collect();
    let mut seen = 0usize;
    let mut max_buffered = 0usize;
    // multiset of received-but-not-forwarded, maintained incrementally
    let mut pending: HashMap<Key, i64> = HashMap::new();
    for (i, e) in stream.iter().enumerate() {
        if clone_at == Some(i) {
            let cloned = n.clone();
            n = cloned;
        }
        let handled = std::panic::catch_unwind(std::panic::AssertUnwindSafe(|| block_on(n.handle_event(e.clone(), &cli::Empty))));
        if let Err(p) = handled {
            let m = p.downcast_ref::<String>().cloned().or_else(|| p.downcast_ref::<&str>().map(|s| (*s).to_string())).unwrap_or_default();
            viol.push(v("panic", format!("call #{i} ({:?}) panicked{}: {m}", inp[i].what, if clone_at.is_some_and(|c| c <= i) { " (writer cloned before this call)" } else { "" })));
            return (viol, C11Stats { max_buffered });
        }
        let out = rec.keys();
        let new = &out[seen..];
        *pending.entry(inp[i].clone()).or_default() += 1;
        for k in new {
            let c = pending.entry(k.clone()).or_default();
            *c -= 1;
            if *c < 0 {
                viol.push(v("invented-or-duplicated", format!("call #{i} forwarded {k:?} which was not (or no longer) pending")));
                return (viol, C11Stats { max_buffered });
            }
        }
        // (3) forwarded at once
        if matches!(inp[i].what, What::RunStarted | What::ParsingFinished(_) | What::ParserError(_)) && !new.contains(&inp[i]) {
            viol.push(v("not-forwarded-at-once", format!("call #{i}: {:?} was not forwarded in the call that received it", inp[i].what)));
        }
        // (6) sequential input passes through event by event
        if sequential && !(new.len() == 1 && new[0] == inp[i]) {
            viol.push(v("sequential-not-passthrough", format!("already sequential stream: call #{i} received {:?} but forwarded {:?}", inp[i].what, new.iter().map(|k| &k.what).collect::<Vec<_>>())));
        }
        // (4) promptness
        let buffered: Vec<&Key> = {
            let mut m: HashMap<&Key, i64> = pending.iter().filter(|(_, c)| **c > 0).map(|(k, c)| (k, *c)).collect();
            inp[..=i]
                .iter()
                .rev()
                .filter(|k| {
                    if let Some(c) = m.get_mut(k) {
                        if *c > 0 {
                            *c -= 1;
                            return true;
                        }
                    }
                    false
                })
                .collect()
        };
        max_buffered = max_buffered.max(buffered.len());
        if !buffered.is_empty() {
            let o = open_state(&out);
            for b in &buffered {
                if b.what == What::RunFinished {
                    continue; // legitimately waits for everything else
                }
                let blocked = match o.f {
                    None => false,
                    Some(f) if f != b.f => true,
                    Some(_) => {
                        if b.r == 0 && b.s == 0 {
                            // FeatureStarted / FeatureFinished of the open feature
                            false
                        } else if b.r != 0 {
                            // event inside rule b.r
                            match (o.r, &o.a) {
                                (Some(r), _) if r != b.r => true,
                                (Some(_), Some(a)) => b.s == 0 || *a != b.attempt(),
                                (Some(_), None) => false,
                                (None, Some(_)) => true, // a rule-less attempt is open
                                (None, None) => false,
                            }
                        } else {
                            // rule-less scenario event
                            match (o.r, &o.a) {
                                (Some(_), _) => true,
                                (None, Some(a)) => *a != b.attempt(),
                                (None, None) => false,
                            }
                        }
                    }
                };
                if !blocked {
                    viol.push(v(
                        "not-prompt",
                        format!("after call #{i} ({:?}) the event {:?} (f={:x} r={:x} s={:x} {:?}) stays buffered although no earlier sibling is open in the output (open: {o:?})", inp[i].what, b.what, b.f, b.r, b.s, b.retries),
                    ));
                    break;
                }
            }
        }
        // (5) Finished only after everything else
        if new.iter().any(|k| k.what == What::RunFinished) && !buffered.is_empty() {
            viol.push(v("finished-too-early", format!("run-Finished forwarded in call #{i} while {} events are still buffered", buffered.len())));
        }
        seen = out.len();
        if !viol.is_empty() {
            return (viol, C11Stats { max_buffered });
        }
    }
    let out = rec.keys();
    // (1) multiset equality at the end
    {
        let mut a = inp.clone();
        a.sort();
        let mut b = out.clone();
        b.sort();
        if a != b {
            let lost = pending.iter().filter(|(_, c)| **c > 0).map(|(k, _)| format!("{:?}", k.what)).take(5).collect::<Vec<_>>();
            viol.push(v("lost-events", format!("{} events received, {} forwarded; never forwarded e.g. {lost:?}", inp.len(), out.len())));
            return (viol, C11Stats { max_buffered });
        }
    }
    if out.last().map(|k| &k.what) != Some(&What::RunFinished) {
        viol.push(v("finished-not-last", "run-Finished is not the last forwarded event".into()));
    }
    // (2) nesting / contiguity
    let mut o = Open::default();
    let (mut closed_f, mut closed_r, mut closed_a) = (vec![], vec![], vec![]);
    for k in &out {
        let bad = match &k.what {
            What::RunStarted | What::ParsingFinished(_) | What::ParserError(_) | What::RunFinished => false,
            What::FeatureStarted => {
                let b = o.f.is_some() || closed_f.contains(&k.f);
                o.f = Some(k.f);
                b
            }
            What::FeatureFinished => {
                let b = o.f != Some(k.f) || o.r.is_some() || o.a.is_some();
                closed_f.push(k.f);
                o.f = None;
                b
            }
            What::RuleStarted => {
                let b = o.f != Some(k.f) || o.r.is_some() || o.a.is_some() || closed_r.contains(&(k.f, k.r));
                o.r = Some(k.r);
                b
            }
            What::RuleFinished => {
                let b = o.r != Some(k.r) || o.a.is_some();
                closed_r.push((k.f, k.r));
                o.r = None;
                b
            }
            What::ScStarted => {
                let b = o.f != Some(k.f) || o.r != (k.r != 0).then_some(k.r) || o.a.is_some() || closed_a.contains(&k.attempt());
                o.a = Some(k.attempt());
                b
            }
            What::ScFinished => {
                let b = o.a != Some(k.attempt());
                closed_a.push(k.attempt());
                o.a = None;
                b
            }
            _ => o.f != Some(k.f) || o.a != Some(k.attempt()),
        };
        if bad {
            viol.push(v("not-nested-or-contiguous", format!("forwarded {:?} (f={:x} r={:x} s={:x} {:?}) breaks nesting / contiguity", k.what, k.f, k.r, k.s, k.retries)));
            break;
        }
    }
    // per-attempt original relative order (and unchanged metadata: `at` is part of the key)
    let proj = |v: &[Key]| {
        let mut m: BTreeMap<(usize, usize, usize, Option<(usize, usize)>), Vec<Key>> = BTreeMap::new();
        for k in v {
            if k.is_scenario_event() {
                m.entry(k.attempt()).or_default().push(k.clone());
            }
        }
        m
    };
    if proj(&inp) != proj(&out) {
        viol.push(v("attempt-order-changed", "events of some attempt were forwarded in a different relative order".into()));
    }
    // (7) after Finished: straight through
    for (j, e) in extra_after_finish.iter().enumerate() {
        let before = rec.keys().len();
        block_on(n.handle_event(e.clone(), &cli::Empty));
        let out = rec.keys();
        if !(out.len() == before + 1 && out[before] == decode(e)) {
            viol.push(v("after-finished-not-passthrough", format!("event #{j} handled after run-Finished was not passed straight through")));
            break;
        }
    }
    (viol, C11Stats { max_buffered })
}
