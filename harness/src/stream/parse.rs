//! Hand-written parsers for reporter output: strict RFC 8259 JSON and XML 1.0 well-formedness
//! (elements, attributes, the five predefined entities, numeric references, CDATA, comments, PI).
//! Written for the harness so that the oracle does not share code with the reporters.

use std::collections::BTreeMap;

// ------------------------------------------------------------------------------------------
// JSON

#[derive(Clone, Debug, PartialEq)]
pub enum J {
    Null,
    Bool(bool),
    Num(f64),
    Str(String),
    Arr(Vec<J>),
    Obj(Vec<(String, J)>),
}

impl J {
    pub fn get(&self, k: &str) -> Option<&J> {
        match self {
            J::Obj(v) => v.iter().find(|(n, _)| n == k).map(|(_, v)| v),
            _ => None,
        }
    }
    pub fn str(&self) -> Option<&str> {
        match self {
            J::Str(s) => Some(s),
            _ => None,
        }
    }
    pub fn num(&self) -> Option<f64> {
        match self {
            J::Num(n) => Some(*n),
            _ => None,
        }
    }
    pub fn arr(&self) -> &[J] {
        match self {
            J::Arr(v) => v,
            _ => &[],
        }
    }
}

struct Jp<'a> {
    s: &'a [u8],
    i: usize,
}

pub fn parse_json(text: &str) -> Result<J, String> {
    let mut p = Jp { s: text.as_bytes(), i: 0 };
    p.ws();
    let v = p.value(0)?;
    p.ws();
    if p.i != p.s.len() {
        return Err(format!("trailing characters at byte {}", p.i));
    }
    Ok(v)
}

impl Jp<'_> {
    fn ws(&mut self) {
        while self.i < self.s.len() && matches!(self.s[self.i], b' ' | b'\t' | b'\n' | b'\r') {
            self.i += 1;
        }
    }
    fn err<T>(&self, m: &str) -> Result<T, String> {
        Err(format!("{m} at byte {}", self.i))
    }
    fn value(&mut self, depth: usize) -> Result<J, String> {
        if depth > 200 {
            return self.err("nesting too deep");
        }
        match self.s.get(self.i) {
            None => self.err("unexpected end"),
            Some(b'{') => {
                self.i += 1;
                let mut out: Vec<(String, J)> = vec![];
                self.ws();
                if self.s.get(self.i) == Some(&b'}') {
                    self.i += 1;
                    return Ok(J::Obj(out));
                }
                loop {
                    self.ws();
                    if self.s.get(self.i) != Some(&b'"') {
                        return self.err("expected string key");
                    }
                    let k = self.string()?;
                    if out.iter().any(|(n, _)| *n == k) {
                        return self.err("duplicate object key");
                    }
                    self.ws();
                    if self.s.get(self.i) != Some(&b':') {
                        return self.err("expected ':'");
                    }
                    self.i += 1;
                    self.ws();
                    let v = self.value(depth + 1)?;
                    out.push((k, v));
                    self.ws();
                    match self.s.get(self.i) {
                        Some(b',') => self.i += 1,
                        Some(b'}') => {
                            self.i += 1;
                            return Ok(J::Obj(out));
                        }
                        _ => return self.err("expected ',' or '}'"),
                    }
                }
            }
            Some(b'[') => {
                self.i += 1;
                let mut out = vec![];
                self.ws();
                if self.s.get(self.i) == Some(&b']') {
                    self.i += 1;
                    return Ok(J::Arr(out));
                }
                loop {
                    self.ws();
                    out.push(self.value(depth + 1)?);
                    self.ws();
                    match self.s.get(self.i) {
                        Some(b',') => self.i += 1,
                        Some(b']') => {
                            self.i += 1;
                            return Ok(J::Arr(out));
                        }
                        _ => return self.err("expected ',' or ']'"),
                    }
                }
            }
            Some(b'"') => Ok(J::Str(self.string()?)),
            Some(b't') => self.lit("true", J::Bool(true)),
            Some(b'f') => self.lit("false", J::Bool(false)),
            Some(b'n') => self.lit("null", J::Null),
            Some(c) if *c == b'-' || c.is_ascii_digit() => self.number(),
            Some(_) => self.err("unexpected character"),
        }
    }
    fn lit(&mut self, w: &str, v: J) -> Result<J, String> {
        if self.s[self.i..].starts_with(w.as_bytes()) {
            self.i += w.len();
            Ok(v)
        } else {
            self.err("bad literal")
        }
    }
    fn number(&mut self) -> Result<J, String> {
        let st = self.i;
        if self.s.get(self.i) == Some(&b'-') {
            self.i += 1;
        }
        match self.s.get(self.i) {
            Some(b'0') => self.i += 1,
            Some(c) if c.is_ascii_digit() => {
                while self.s.get(self.i).is_some_and(u8::is_ascii_digit) {
                    self.i += 1;
                }
            }
            _ => return self.err("bad number"),
        }
        if self.s.get(self.i) == Some(&b'.') {
            self.i += 1;
            if !self.s.get(self.i).is_some_and(u8::is_ascii_digit) {
                return self.err("bad fraction");
            }
            while self.s.get(self.i).is_some_and(u8::is_ascii_digit) {
                self.i += 1;
            }
        }
        if matches!(self.s.get(self.i), Some(b'e' | b'E')) {
            self.i += 1;
            if matches!(self.s.get(self.i), Some(b'+' | b'-')) {
                self.i += 1;
            }
            if !self.s.get(self.i).is_some_and(u8::is_ascii_digit) {
                return self.err("bad exponent");
            }
            while self.s.get(self.i).is_some_and(u8::is_ascii_digit) {
                self.i += 1;
            }
        }
        std::str::from_utf8(&self.s[st..self.i]).ok().and_then(|t| t.parse::<f64>().ok()).map(J::Num).ok_or_else(|| "bad number".to_string())
    }
    fn hex4(&mut self) -> Result<u32, String> {
        if self.i + 4 > self.s.len() {
            return self.err("short \\u escape");
        }
        let t = std::str::from_utf8(&self.s[self.i..self.i + 4]).map_err(|_| "bad \\u escape".to_string())?;
        let v = u32::from_str_radix(t, 16).map_err(|_| format!("bad \\u escape at byte {}", self.i))?;
        self.i += 4;
        Ok(v)
    }
    fn string(&mut self) -> Result<String, String> {
        self.i += 1; // opening quote
        let mut out = String::new();
        loop {
            let Some(&c) = self.s.get(self.i) else { return self.err("unterminated string") };
            match c {
                b'"' => {
                    self.i += 1;
                    return Ok(out);
                }
                b'\\' => {
                    self.i += 1;
                    let Some(&e) = self.s.get(self.i) else { return self.err("unterminated escape") };
                    self.i += 1;
                    match e {
                        b'"' => out.push('"'),
                        b'\\' => out.push('\\'),
                        b'/' => out.push('/'),
                        b'b' => out.push('\u{8}'),
                        b'f' => out.push('\u{c}'),
                        b'n' => out.push('\n'),
                        b'r' => out.push('\r'),
                        b't' => out.push('\t'),
                        b'u' => {
                            let mut cp = self.hex4()?;
                            if (0xD800..0xDC00).contains(&cp) {
                                if self.s.get(self.i) == Some(&b'\\') && self.s.get(self.i + 1) == Some(&b'u') {
                                    self.i += 2;
                                    let lo = self.hex4()?;
                                    if !(0xDC00..0xE000).contains(&lo) {
                                        return self.err("bad low surrogate");
                                    }
                                    cp = 0x10000 + ((cp - 0xD800) << 10) + (lo - 0xDC00);
                                } else {
                                    return self.err("lone high surrogate");
                                }
                            } else if (0xDC00..0xE000).contains(&cp) {
                                return self.err("lone low surrogate");
                            }
                            out.push(char::from_u32(cp).ok_or_else(|| "bad code point".to_string())?);
                        }
                        _ => return self.err("bad escape"),
                    }
                }
                c if c < 0x20 => return self.err("raw control character in string"),
                _ => {
                    // copy one UTF-8 scalar
                    let rest = std::str::from_utf8(&self.s[self.i..]).map_err(|_| format!("invalid UTF-8 at byte {}", self.i))?;
                    let ch = rest.chars().next().unwrap();
                    out.push(ch);
                    self.i += ch.len_utf8();
                }
            }
        }
    }
}

// ------------------------------------------------------------------------------------------
// XML

#[derive(Clone, Debug, Default)]
pub struct Xml {
    pub name: String,
    pub attrs: BTreeMap<String, String>,
    pub children: Vec<Xml>,
    /// Concatenated character data (text + CDATA) directly inside this element.
    pub text: String,
}

impl Xml {
    pub fn child(&self, name: &str) -> Option<&Xml> {
        self.children.iter().find(|c| c.name == name)
    }
    pub fn attr(&self, k: &str) -> Option<&str> {
        self.attrs.get(k).map(String::as_str)
    }
}

struct Xp<'a> {
    s: &'a str,
    i: usize,
}

fn is_name_start(c: char) -> bool {
    c.is_alphabetic() || c == '_' || c == ':'
}
fn is_name_char(c: char) -> bool {
    is_name_start(c) || c.is_ascii_digit() || c == '-' || c == '.'
}
fn is_xml_char(c: char) -> bool {
    matches!(c, '\t' | '\n' | '\r' | '\u{20}'..='\u{D7FF}' | '\u{E000}'..='\u{FFFD}' | '\u{10000}'..='\u{10FFFF}')
}

pub fn parse_xml(text: &str) -> Result<Xml, String> {
    let mut p = Xp { s: text, i: 0 };
    // prolog
    if p.rest().starts_with("<?xml") {
        let end = p.rest().find("?>").ok_or("unterminated XML declaration")?;
        p.i += end + 2;
    }
    p.misc()?;
    let root = p.element(0)?;
    p.misc()?;
    if p.i != p.s.len() {
        return Err(format!("content after the root element at byte {}", p.i));
    }
    Ok(root)
}

impl Xp<'_> {
    fn rest(&self) -> &str {
        &self.s[self.i..]
    }
    fn peek(&self) -> Option<char> {
        self.rest().chars().next()
    }
    fn ws(&mut self) {
        while self.peek().is_some_and(|c| matches!(c, ' ' | '\t' | '\n' | '\r')) {
            self.i += 1;
        }
    }
    fn misc(&mut self) -> Result<(), String> {
        loop {
            self.ws();
            if self.rest().starts_with("<!--") {
                self.comment()?;
            } else if self.rest().starts_with("<?") {
                let end = self.rest().find("?>").ok_or("unterminated processing instruction")?;
                self.i += end + 2;
            } else {
                return Ok(());
            }
        }
    }
    fn comment(&mut self) -> Result<(), String> {
        let body_start = self.i + 4;
        let end = self.s[body_start..].find("--").ok_or("unterminated comment")?;
        if !self.s[body_start + end..].starts_with("-->") {
            return Err(format!("`--` inside a comment at byte {}", body_start + end));
        }
        self.i = body_start + end + 3;
        Ok(())
    }
    fn name(&mut self) -> Result<String, String> {
        let st = self.i;
        match self.peek() {
            Some(c) if is_name_start(c) => self.i += c.len_utf8(),
            _ => return Err(format!("expected a name at byte {}", self.i)),
        }
        while let Some(c) = self.peek() {
            if is_name_char(c) {
                self.i += c.len_utf8();
            } else {
                break;
            }
        }
        Ok(self.s[st..self.i].to_string())
    }
    fn reference(&mut self) -> Result<char, String> {
        // at '&'
        let end = self.rest().find(';').ok_or_else(|| format!("unterminated reference at byte {}", self.i))?;
        let body = &self.rest()[1..end];
        let c = match body {
            "lt" => '<',
            "gt" => '>',
            "amp" => '&',
            "apos" => '\'',
            "quot" => '"',
            _ => {
                let cp = if let Some(h) = body.strip_prefix("#x") {
                    u32::from_str_radix(h, 16).ok()
                } else if let Some(d) = body.strip_prefix('#') {
                    d.parse::<u32>().ok()
                } else {
                    None
                };
                let c = cp.and_then(char::from_u32).ok_or_else(|| format!("unknown entity `&{body};` at byte {}", self.i))?;
                if !is_xml_char(c) {
                    return Err(format!("character reference to a non-XML character at byte {}", self.i));
                }
                c
            }
        };
        self.i += end + 1;
        Ok(c)
    }
    fn attr_value(&mut self) -> Result<String, String> {
        let q = self.peek().filter(|c| *c == '"' || *c == '\'').ok_or_else(|| format!("expected a quoted attribute value at byte {}", self.i))?;
        self.i += 1;
        let mut out = String::new();
        loop {
            match self.peek() {
                None => return Err("unterminated attribute value".into()),
                Some(c) if c == q => {
                    self.i += 1;
                    return Ok(out);
                }
                Some('<') => return Err(format!("`<` in attribute value at byte {}", self.i)),
                Some('&') => out.push(self.reference()?),
                Some(c) => {
                    if !is_xml_char(c) {
                        return Err(format!("non-XML character U+{:04X} in attribute value at byte {}", c as u32, self.i));
                    }
                    // attribute-value normalisation: literal whitespace becomes a space
                    out.push(if matches!(c, '\t' | '\n' | '\r') { ' ' } else { c });
                    self.i += c.len_utf8();
                }
            }
        }
    }
    fn element(&mut self, depth: usize) -> Result<Xml, String> {
        if depth > 100 {
            return Err("nesting too deep".into());
        }
        if self.peek() != Some('<') {
            return Err(format!("expected `<` at byte {}", self.i));
        }
        self.i += 1;
        let mut el = Xml { name: self.name()?, ..Xml::default() };
        loop {
            let had_ws = self.peek().is_some_and(|c| matches!(c, ' ' | '\t' | '\n' | '\r'));
            self.ws();
            match self.peek() {
                Some('/') => {
                    if !self.rest().starts_with("/>") {
                        return Err(format!("bad empty-element tag at byte {}", self.i));
                    }
                    self.i += 2;
                    return Ok(el);
                }
                Some('>') => {
                    self.i += 1;
                    break;
                }
                Some(_) => {
                    if !had_ws {
                        return Err(format!("missing whitespace before attribute at byte {}", self.i));
                    }
                    let k = self.name()?;
                    self.ws();
                    if self.peek() != Some('=') {
                        return Err(format!("expected `=` at byte {}", self.i));
                    }
                    self.i += 1;
                    self.ws();
                    let v = self.attr_value()?;
                    if el.attrs.insert(k.clone(), v).is_some() {
                        return Err(format!("duplicate attribute `{k}`"));
                    }
                }
                None => return Err("unterminated start tag".into()),
            }
        }
        // content
        loop {
            if self.rest().starts_with("</") {
                self.i += 2;
                let n = self.name()?;
                if n != el.name {
                    return Err(format!("end tag `{n}` does not match `{}` at byte {}", el.name, self.i));
                }
                self.ws();
                if self.peek() != Some('>') {
                    return Err(format!("bad end tag at byte {}", self.i));
                }
                self.i += 1;
                return Ok(el);
            } else if self.rest().starts_with("<![CDATA[") {
                self.i += 9;
                let end = self.rest().find("]]>").ok_or("unterminated CDATA section")?;
                let body = &self.rest()[..end];
                if let Some(c) = body.chars().find(|c| !is_xml_char(*c)) {
                    return Err(format!("non-XML character U+{:04X} in CDATA", c as u32));
                }
                el.text.push_str(body);
                self.i += end + 3;
            } else if self.rest().starts_with("<!--") {
                self.comment()?;
            } else if self.rest().starts_with("<?") {
                let end = self.rest().find("?>").ok_or("unterminated processing instruction")?;
                self.i += end + 2;
            } else if self.peek() == Some('<') {
                el.children.push(self.element(depth + 1)?);
            } else {
                match self.peek() {
                    None => return Err(format!("unterminated element `{}`", el.name)),
                    Some('&') => {
                        let c = self.reference()?;
                        el.text.push(c);
                    }
                    Some(c) => {
                        if self.rest().starts_with("]]>") {
                            return Err(format!("`]]>` in character data at byte {}", self.i));
                        }
                        if !is_xml_char(c) {
                            return Err(format!("non-XML character U+{:04X} in character data at byte {}", c as u32, self.i));
                        }
                        el.text.push(c);
                        self.i += c.len_utf8();
                    }
                }
            }
        }
    }
}
