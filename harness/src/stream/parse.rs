//! Hand-written parsers for reporter output (strict JSON, XML well-formedness, terminal lines).
