//! StreamLab: generated run trees -> per-attempt events (reference attempt model over random
//! outcomes) -> random linearisation respecting happened-before -> fed to the real writers.

pub mod c11;
pub mod c12;
pub mod c13;
pub mod c14;
pub mod parse;
pub mod props;
pub mod verdict;

use std::{
    cell::RefCell,
    rc::Rc,
    sync::Arc,
    time::{Duration, SystemTime},
};

use cucumber::{
    Event, Writer, cli,
    event::{self, Cucumber, Hook, HookType, Retries, Scenario, Source, Step, StepError},
    feature::ExpandExamplesError,
    gherkin, parser, step, writer,
};

use crate::{
    lab::{
        W,
        case::{mkbackground, mkscenario, mkstep},
    },
    tape::Tape,
};

pub type Ev = parser::Result<Event<Cucumber<W>>>;

#[derive(Clone, Debug)]
pub struct SProfile {
    pub max_features: usize,
    pub max_scenarios: usize,
    pub max_rules: usize,
    pub max_rule_scenarios: usize,
    pub max_steps: usize,
    pub max_bg: usize,
    pub p_before: u32,
    pub p_after: u32,
    pub p_hook_fail: u32,
    pub p_retry: u32,
    pub p_aborted_chain: u32,
    pub p_parser_error: u32,
    pub p_pathless: u32,
    pub p_dup_names: u32,
    pub p_sequential: u32,
    pub p_allow_skipped: u32,
    pub p_logs: u32,
    /// whether a `Log` text may lack its final newline (what the tracing integration never
    /// produces, and the terminal reporter relies on; a pure event transformer must not care)
    pub log_fragments: bool,
    /// probability (x/100) that a feature / rule without scenarios is still bracketed
    pub p_empty_brackets: u32,
    /// probability (x/100) that a feature is a twin of the previous one: same title, same
    /// scenarios, steps and lines, both without a path (one template rendered twice)
    pub p_twin_feature: u32,
    /// probability (x/100) that the last rule-less scenario of a feature is followed by a copy of
    /// itself (equal as a value - name, position, steps - but an entity of its own: the same
    /// scenario listed twice, to be run twice)
    pub p_twin_scenario: u32,
    /// weights: pass, skip, panic, ambiguous, notfound
    pub outcome_w: [u32; 5],
    pub decorate: bool,
    /// exclude hook failures from attempts that can be retried (known finding D2)
    pub exclude_nonfinal_hook_failure: bool,
    /// exclude retried scenarios without own steps / final hook failure after retry (D5)
    pub exclude_stale_retried: bool,
    /// exclude hook failures in attempts following a retried one (D5b)
    pub exclude_hook_failure_after_retry: bool,
    pub exclude_pathless: bool,
    pub exclude_cdata_end: bool,
    /// whether `Failed(NotFound)` (only produced by FailOnSkipped) may appear
    pub allow_notfound: bool,
}

impl Default for SProfile {
    fn default() -> Self {
        Self {
            max_features: 3,
            max_scenarios: 3,
            max_rules: 2,
            max_rule_scenarios: 2,
            max_steps: 3,
            max_bg: 2,
            p_before: 30,
            p_after: 30,
            p_hook_fail: 12,
            p_retry: 45,
            p_aborted_chain: 8,
            p_parser_error: 10,
            p_pathless: 20,
            p_dup_names: 0,
            p_sequential: 20,
            p_allow_skipped: 10,
            p_logs: 25,
            log_fragments: false,
            p_twin_scenario: 0,
            p_empty_brackets: 0,
            p_twin_feature: 0,
            outcome_w: [60, 10, 12, 6, 0],
            decorate: false,
            exclude_nonfinal_hook_failure: false,
            exclude_stale_retried: false,
            exclude_hook_failure_after_retry: false,
            exclude_pathless: false,
            exclude_cdata_end: false,
            allow_notfound: false,
        }
    }
}

#[derive(Clone, Copy, Debug, PartialEq, Eq)]
pub enum Out {
    Pass,
    Skip,
    Panic,
    Ambiguous,
    NotFound,
}

#[derive(Clone, Debug)]
pub struct Att {
    pub retries: Option<Retries>,
    pub evs: Vec<Scenario<W>>,
    pub failed: bool,
    pub skipped: bool,
    pub hook_failed: bool,
}

pub struct Sc {
    pub src: Source<gherkin::Scenario>,
    pub attempts: Vec<Att>,
}

pub struct Ru {
    pub src: Source<gherkin::Rule>,
    pub scs: Vec<Sc>,
    /// a rule without scenarios still gets a `Started` / `Finished` pair (the ordering contract
    /// allows an empty bracket; `runner::Basic` does not produce one today)
    pub bracket_when_empty: bool,
}

pub struct Fe {
    pub src: Source<gherkin::Feature>,
    pub scs: Vec<Sc>,
    pub rules: Vec<Ru>,
    /// as for `Ru`
    pub bracket_when_empty: bool,
}

pub struct Tree {
    pub feats: Vec<Fe>,
    pub errors: Vec<parser::Error>,
    pub excluded: u64,
}

fn pct(t: &mut Tape, p: u32) -> bool {
    p > 0 && t.rare(p, 100)
}

/// Capture locations of a passed step, as the definition's regex would have left them. The
/// definition is one of five shapes (chosen by the text): flat groups, groups nested inside a
/// group that goes on after them, groups nested down to a common end, adjacent groups with
/// unmatched text behind them, an inner group ending strictly before its outer one plus an
/// optional group - the reporters highlight the captures and have to cope with all of them.
pub fn caploc(text: &str) -> regex::CaptureLocations {
    thread_local! {
        static RES: Vec<regex::Regex> = [
            r"^(\S+)(?: (.*))?$",
            r"(?s)^((\S+)(\s+\S+)?)(.*)$",
            r"(?s)^(\S+(\s+(\S+))?)(\s.*)?$",
            r"(?s)^(\S)(\S*)",
            r"(?s)^((\S)(\S*))((\s+)(\S+))?",
        ]
        .iter()
        .map(|r| regex::Regex::new(r).unwrap())
        .collect();
    }
    RES.with(|res| {
        let re = &res[(crate::tape::hash_str(text) % res.len() as u64) as usize];
        let mut l = re.capture_locations();
        let _ = re.captures_read(&mut l, text);
        l
    })
}

pub const STEP_LOC: step::Location = step::Location { path: "vlab/steps.rs", line: 42, column: 3 };

/// Decoration alphabet for names / texts (C14): quotes, markup, non-ASCII, combining marks.
const DECOR: &[&str] = &["\"q\"", "<b>", "&amp;", "a>b", "'s", "é", "日本", "e\u{301}", "\\n", "{x}", "%s", "]]>", "--", "<!--", "&#10;"];

fn decorate(t: &mut Tape, base: &str, p: &SProfile, excluded: &mut u64) -> String {
    if !p.decorate || !pct(t, 40) {
        return base.to_string();
    }
    let mut d = DECOR[t.pick(DECOR.len())];
    if d == "]]>" && p.exclude_cdata_end {
        *excluded += 1;
        d = "]]";
    }
    match t.pick(3) {
        0 => format!("{base} {d}"),
        1 => format!("{d} {base}"),
        _ => format!("{base} {d} x"),
    }
}

pub fn info(s: String) -> event::Info {
    Arc::new(s)
}

struct AttemptCtx<'a> {
    f: &'a gherkin::Feature,
    r: Option<&'a gherkin::Rule>,
    sc: &'a gherkin::Scenario,
    before: bool,
    after: bool,
}

/// The reference attempt model (DESIGN 5.1) over random outcomes.
fn gen_attempt(t: &mut Tape, c: &AttemptCtx<'_>, retries: Option<Retries>, p: &SProfile, allow_hook_fail: (bool, bool), tokbase: &str, excluded: &mut u64) -> Att {
    let mut evs = vec![Scenario::Started];
    let (mut failed, mut skipped, mut hook_failed, mut stop) = (false, false, false, false);
    let mut deferred: Option<Scenario<W>> = None;
    let world = || Some(Arc::new(W { id: 7, counter: 1 }));
    // `allow_hook_fail` = (before hook, after hook); the draw is made either way (same tape)
    let mut hook_fails = |t: &mut Tape, excluded: &mut u64, allowed: bool| {
        let f = pct(t, p.p_hook_fail);
        if f && !allowed {
            *excluded += 1;
            return false;
        }
        f
    };
    if c.before {
        evs.push(Scenario::hook_started(HookType::Before));
        if hook_fails(t, excluded, allow_hook_fail.0) {
            deferred = Some(Scenario::hook_failed(HookType::Before, world(), info(format!("{tokbase}:before-hook-panic"))));
            failed = true;
            hook_failed = true;
            stop = true;
        } else {
            evs.push(Scenario::hook_passed(HookType::Before));
        }
    }
    let steps: Vec<(bool, gherkin::Step)> = c
        .f
        .background
        .iter()
        .flat_map(|b| b.steps.iter().cloned())
        .map(|s| (true, s))
        .chain(c.r.iter().flat_map(|r| r.background.iter().flat_map(|b| b.steps.iter().cloned())).map(|s| (true, s)))
        .chain(c.sc.steps.iter().cloned().map(|s| (false, s)))
        .collect();
    for (i, (is_bg, st)) in steps.into_iter().enumerate() {
        if stop {
            break;
        }
        let src = Source::new(st.clone());
        let mk = |e: Step<W>| if is_bg { Scenario::Background(src.clone(), e) } else { Scenario::Step(src.clone(), e) };
        evs.push(mk(Step::Started));
        let mut w = p.outcome_w;
        if !p.allow_notfound {
            w[4] = 0;
        }
        let o = [Out::Pass, Out::Skip, Out::Panic, Out::Ambiguous, Out::NotFound][t.weighted(&w)];
        match o {
            Out::Pass => evs.push(mk(Step::Passed(caploc(&st.value), Some(STEP_LOC)))),
            Out::Skip => {
                evs.push(mk(Step::Skipped));
                skipped = true;
                stop = true;
            }
            Out::Panic => {
                deferred = Some(mk(Step::Failed(Some(caploc(&st.value)), Some(STEP_LOC), world(), StepError::Panic(info(format!("{tokbase}:step{i}-panic"))))));
                failed = true;
                stop = true;
            }
            Out::Ambiguous => {
                let re = |s: &str| step::HashableRegex::from(regex::Regex::new(s).unwrap());
                deferred = Some(mk(Step::Failed(
                    None,
                    None,
                    None,
                    StepError::AmbiguousMatch(step::AmbiguousMatchError { possible_matches: vec![(re("^a.*$"), Some(STEP_LOC)), (re("^.*b$"), None)] }),
                )));
                failed = true;
                stop = true;
            }
            Out::NotFound => {
                deferred = Some(mk(Step::Failed(None, None, None, StepError::NotFound)));
                failed = true;
                stop = true;
            }
        }
    }
    if let Some(d) = deferred {
        evs.push(d);
    }
    if c.after {
        evs.push(Scenario::hook_started(HookType::After));
        if hook_fails(t, excluded, allow_hook_fail.1) {
            evs.push(Scenario::hook_failed(HookType::After, world(), info(format!("{tokbase}:after-hook-panic"))));
            failed = true;
            hook_failed = true;
        } else {
            evs.push(Scenario::hook_passed(HookType::After));
        }
    }
    // Log events (tracing integration) may sit anywhere inside the attempt; the runner delivers
    // them as soon as they are emitted, e.g. an after hook's logs before that hook's Started.
    if pct(t, p.p_logs) {
        let n = 1 + t.pick(3);
        for j in 0..n {
            let pos = 1 + t.pick(evs.len());
            // (a `Log` need not be a whole line: custom layers / writers deliver fragments, and
            // two of them may follow each other directly)
            let msg = match t.pick(6) {
                0 => format!("log {tokbase}:{j} first line\n  second line\n"),
                1 | 2 if p.log_fragments => format!("log {tokbase}:{j} unterminated"),
                _ => format!("log {tokbase}:{j}\n"),
            };
            evs.insert(pos, Scenario::Log(msg));
            if t.chance(1, 3) {
                evs.insert(pos + 1, Scenario::Log(format!(" +{tokbase}:{j}\n")));
            }
        }
    }
    evs.push(Scenario::Finished);
    Att { retries, evs, failed, skipped, hook_failed }
}

fn has_notfound(a: &Att) -> bool {
    a.evs.iter().any(|e| matches!(e, Scenario::Step(_, Step::Failed(_, _, _, StepError::NotFound)) | Scenario::Background(_, Step::Failed(_, _, _, StepError::NotFound))))
}

fn gen_sc(t: &mut Tape, c: &AttemptCtx<'_>, p: &SProfile, excluded: &mut u64, uid: &str) -> Vec<Att> {
    let mut attempts = vec![];
    let mut retry = pct(t, p.p_retry);
    if retry && p.exclude_stale_retried && c.sc.steps.is_empty() {
        // known finding D5a: a retried scenario without own steps is mis-counted by Summarize
        retry = false;
        *excluded += 1;
    }
    if !retry {
        attempts.push(gen_attempt(t, c, None, p, (true, true), &format!("{uid}#-"), excluded));
        return attempts;
    }
    let n = t.range(1, 3);
    let mut k = 0;
    loop {
        let ret = Some(Retries { current: k, left: n - k });
        let is_final = k == n;
        // D2: hook failure in an attempt that can be retried. D5b: hook failure after a retried
        // attempt *while Summarize's stale Retried indicator is still in place*, i.e. a Before-hook
        // failure, or an After-hook failure of a scenario without own steps (with own steps every
        // way of reaching the After hook has replaced the indicator: last step Passed removes it,
        // Skipped / Failed overwrite it). Until round 13 every hook failure after a retry was
        // excluded, which hid the correct skipped-then-After-hook-failed path (seed C12-r13).
        let d2 = p.exclude_nonfinal_hook_failure && !is_final;
        let d5b = p.exclude_hook_failure_after_retry && k > 0;
        let allow_hook_fail = (!d2 && !d5b, !d2 && !(d5b && c.sc.steps.is_empty()));
        let a = gen_attempt(t, c, ret, p, allow_hook_fail, &format!("{uid}#{k}"), excluded);
        let failed = a.failed;
        let nf = has_notfound(&a);
        attempts.push(a);
        // runner semantics: retried iff failed && left > 0; NotFound comes from FailOnSkipped
        // (underlying step was skipped) and is never retried.
        if failed && !nf && k < n {
            if pct(t, p.p_aborted_chain) {
                break; // aborted chain (fail-fast)
            }
            k += 1;
        } else {
            break;
        }
    }
    attempts
}

pub fn gen_tree(t: &mut Tape, p: &SProfile) -> Tree {
    let mut excluded = 0u64;
    let nf = t.range(1, p.max_features);
    let dup = pct(t, p.p_dup_names);
    let mut feats = vec![];
    for fi in 0..nf {
        let before = pct(t, p.p_before);
        let after = pct(t, p.p_after);
        let fname = decorate(t, &format!("F{fi}"), p, &mut excluded);
        let mut line = 2usize;
        let nbg = t.pick(p.max_bg + 1);
        let bg_line = line;
        let bg = (nbg > 0).then(|| mkbackground((0..nbg).map(|i| mkstep(decorate(t, &format!("f{fi}bg{i} arg"), p, &mut excluded), bg_line + 1 + i, t.pick(3))).collect(), bg_line));
        if nbg > 0 {
            line += nbg + 1;
        }
        let mut mk_sc = |t: &mut Tape, base: String, line: &mut usize, excluded: &mut u64| {
            let ns = t.pick(p.max_steps + 1);
            let name = if dup { "same name".to_string() } else { decorate(t, &base, p, excluded) };
            let l = *line;
            let steps = (0..ns)
                .map(|i| {
                    let mut st = mkstep(decorate(t, &format!("{base}.st{i} arg{i}"), p, excluded), l + 1 + i, t.pick(3));
                    if p.decorate && pct(t, 15) {
                        // (one doc string in three ends with a blank line)
                        let tail = if crate::tape::hash_str(&base) % 3 == 0 { "\n" } else { "" };
                        st.docstring = Some(format!("doc of {base}\n  indented {}\n{tail}", DECOR[t.pick(DECOR.len())]));
                        // (round 13: every other step with a doc string also carries a data table, which
                        // `gherkin::Step` allows and the reporters print one after the other; chosen by a
                        // hash so that the tape is consumed as before)
                        let h = crate::tape::hash_str(&format!("{base}#{i}"));
                        if h % 2 == 0 {
                            st.table = Some(gherkin::Table {
                                rows: vec![vec!["k".into(), "v é".into()], vec![DECOR[(h / 2) as usize % DECOR.len()].into(), "2".into()], vec!["third".into(), String::new()]],
                                span: gherkin::Span::default(),
                                position: gherkin::LineCol { line: l + 1 + i, col: 7 },
                            });
                        }
                    } else if p.decorate && pct(t, 15) {
                        st.table = Some(gherkin::Table {
                            rows: vec![vec!["col".into(), "é wide 日本".into()], vec![DECOR[t.pick(DECOR.len())].into(), "1".into()]],
                            span: gherkin::Span::default(),
                            position: gherkin::LineCol { line: l + 1 + i, col: 7 },
                        });
                    }
                    st
                })
                .collect();
            let mut tags = vec![];
            if pct(t, p.p_allow_skipped) {
                tags.push("allow.skipped".to_string());
            }
            *line += ns + 2;
            mkscenario(name, steps, tags, l)
        };
        let nsc = t.pick(p.max_scenarios + 1);
        let mut scs: Vec<gherkin::Scenario> = (0..nsc).map(|si| mk_sc(t, format!("F{fi}.S{si}"), &mut line, &mut excluded)).collect();
        if p.p_twin_scenario > 0 && pct(t, p.p_twin_scenario) {
            if let Some(last) = scs.last().cloned() {
                scs.push(last);
            }
        }
        let nr = t.pick(p.max_rules + 1);
        let mut rules = vec![];
        for ri in 0..nr {
            let rl = line;
            line += 1;
            let rbg = t.pick(p.max_bg.min(1) + 1);
            let rbg_line = line;
            let rb = (rbg > 0).then(|| {
                let mut b = mkbackground((0..rbg).map(|i| mkstep(format!("f{fi}r{ri}bg{i} arg"), rbg_line + 1 + i, t.pick(3))).collect(), rbg_line);
                b.position.col = 5;
                b
            });
            if rbg > 0 {
                line += rbg + 1;
            }
            let nrs = t.pick(p.max_rule_scenarios + 1);
            let rs: Vec<gherkin::Scenario> = (0..nrs).map(|si| mk_sc(t, format!("F{fi}.R{ri}.S{si}"), &mut line, &mut excluded)).collect();
            let mut rtags = vec![];
            if pct(t, p.p_allow_skipped / 2) {
                rtags.push("allow.skipped".to_string());
            }
            rules.push(gherkin::Rule {
                keyword: "Rule".into(),
                name: decorate(t, &format!("F{fi}.R{ri}"), p, &mut excluded),
                description: None,
                background: rb,
                scenarios: rs,
                tags: rtags,
                span: gherkin::Span::default(),
                position: gherkin::LineCol { line: rl, col: 3 },
            });
        }
        let mut pathless = pct(t, p.p_pathless);
        if pathless && p.exclude_pathless {
            pathless = false;
            excluded += 1;
        }
        let mut ftags = vec![];
        if pct(t, p.p_allow_skipped / 2) {
            ftags.push("allow.skipped".to_string());
        }
        let twin = fi > 0 && p.p_twin_feature > 0 && pct(t, p.p_twin_feature) && !p.exclude_pathless;
        let feat = gherkin::Feature {
            keyword: "Feature".into(),
            name: fname,
            description: None,
            background: bg,
            scenarios: scs,
            rules,
            tags: ftags,
            span: gherkin::Span::default(),
            position: gherkin::LineCol { line: 1, col: 1 },
            path: (!pathless).then(|| format!("/vt/f{fi}.feature").into()),
        };
        let feat = if twin {
            // the previous feature, rendered once more (and the original loses its path too)
            let prev: &mut Fe = feats.last_mut().unwrap();
            let mut g = (*prev.src).clone();
            g.path = None;
            prev.src = Source::new(g.clone());
            g
        } else {
            feat
        };
        let fsrc = Source::new(feat.clone());
        let scs2: Vec<Sc> = feat
            .scenarios
            .iter()
            .enumerate()
            .map(|(si, s)| {
                let c = AttemptCtx { f: &feat, r: None, sc: s, before, after };
                Sc { src: Source::new(s.clone()), attempts: gen_sc(t, &c, p, &mut excluded, &format!("f{fi}s{si}")) }
            })
            .collect();
        let rules2: Vec<Ru> = feat
            .rules
            .iter()
            .enumerate()
            .map(|(ri, r)| Ru {
                bracket_when_empty: r.scenarios.is_empty() && p.p_empty_brackets > 0 && pct(t, p.p_empty_brackets),
                src: Source::new(r.clone()),
                scs: r
                    .scenarios
                    .iter()
                    .enumerate()
                    .map(|(si, s)| {
                        let c = AttemptCtx { f: &feat, r: Some(r), sc: s, before, after };
                        Sc { src: Source::new(s.clone()), attempts: gen_sc(t, &c, p, &mut excluded, &format!("f{fi}r{ri}s{si}")) }
                    })
                    .collect(),
            })
            .collect();
        let bracket_when_empty = p.p_empty_brackets > 0 && pct(t, p.p_empty_brackets);
        feats.push(Fe { src: fsrc, scs: scs2, rules: rules2, bracket_when_empty });
    }
    let mut errors = vec![];
    for i in 0..3 {
        if pct(t, p.p_parser_error) {
            let pathless = pct(t, 50) && !p.exclude_pathless;
            errors.push(parser::Error::from(ExpandExamplesError {
                pos: gherkin::LineCol { line: 3 + i, col: 5 },
                name: format!("ph{i}"),
                path: (!pathless).then(|| format!("/vt/broken{i}.feature").into()),
            }));
        }
    }
    Tree { feats, errors, excluded }
}

// ------------------------------------------------------------------------------------------
// linearisation

fn stamp(e: Cucumber<W>, clk: &mut u64) -> Ev {
    let mut ev = Event::new(e);
    *clk += 1;
    ev.at = SystemTime::UNIX_EPOCH + Duration::from_millis(1_600_000_000_000 + *clk * 7);
    Ok(ev)
}

pub struct Lin {
    pub stream: Vec<Ev>,
    pub sequential: bool,
}

/// Random linearisation of the tree's events that respects happened-before. `seq`: always
/// continue the open entity (an already normalised stream).
pub fn linearise(t: &mut Tape, tree: &Tree, seq: bool, started_first: bool) -> Vec<Ev> {
    linearise_with(&mut |n| t.pick(n), tree, seq, started_first)
}

/// Like [`linearise`], with an arbitrary chooser (`n` alternatives -> index), used for exhaustive enumeration.
pub fn linearise_with(pick: &mut dyn FnMut(usize) -> usize, tree: &Tree, seq: bool, started_first: bool) -> Vec<Ev> {
    linearise_full(pick, tree, seq, started_first, false)
}

/// `seq_parser_first`: parser errors and ParsingFinished directly follow run-Started.
pub fn linearise_full(pick: &mut dyn FnMut(usize) -> usize, tree: &Tree, seq: bool, started_first: bool, seq_parser_first: bool) -> Vec<Ev> {
    struct ScSt {
        a: usize,
        e: usize,
    }
    struct FSt {
        started: bool,
        finished: bool,
        scs: Vec<ScSt>,
        rules: Vec<(bool, bool, Vec<ScSt>)>,
    }
    #[derive(Clone, Copy, PartialEq, Debug)]
    enum Act {
        RunStarted,
        Err(usize),
        PF,
        FStart(usize),
        FFin(usize),
        RStart(usize, usize),
        RFin(usize, usize),
        Sc(usize, Option<usize>, usize),
    }
    let mut st: Vec<FSt> = tree
        .feats
        .iter()
        .map(|f| FSt {
            started: false,
            finished: false,
            scs: f.scs.iter().map(|_| ScSt { a: 0, e: 0 }).collect(),
            rules: f.rules.iter().map(|r| (false, false, r.scs.iter().map(|_| ScSt { a: 0, e: 0 }).collect())).collect(),
        })
        .collect();
    let mut out = vec![];
    let mut clk = 0u64;
    let mut run_started = false;
    let mut errs_done = 0usize;
    let mut pf_done = false;
    let n_scenarios: usize = tree.feats.iter().map(|f| f.src.scenarios.len() + f.src.rules.iter().map(|r| r.scenarios.len()).sum::<usize>()).sum();
    let n_steps: usize = tree.feats.iter().map(|f| f.src.scenarios.iter().map(|s| s.steps.len()).sum::<usize>() + f.src.rules.iter().flat_map(|r| r.scenarios.iter()).map(|s| s.steps.len()).sum::<usize>()).sum();
    loop {
        let mut acts: Vec<Act> = vec![];
        if !run_started {
            acts.push(Act::RunStarted);
        }
        if errs_done < tree.errors.len() {
            acts.push(Act::Err(errs_done));
        } else if !pf_done {
            acts.push(Act::PF);
        }
        // `started_first` also pins the parser items right behind run-Started (they are forwarded at
        // once and do not interact with the queues): keeps exhaustive enumeration small.
        if started_first && run_started && seq_parser_first && (errs_done < tree.errors.len() || !pf_done) {
            acts.retain(|a| matches!(a, Act::Err(_) | Act::PF));
        }
        if run_started || !started_first {
            // feature events need run Started first
        }
        if run_started {
            for (fi, f) in tree.feats.iter().enumerate() {
                let s = &st[fi];
                let has_content = f.scs.iter().any(|s| !s.attempts.is_empty()) || f.rules.iter().any(|r| r.bracket_when_empty || r.scs.iter().any(|s| !s.attempts.is_empty())) || f.bracket_when_empty;
                if !has_content || s.finished {
                    continue;
                }
                if !s.started {
                    acts.push(Act::FStart(fi));
                    continue;
                }
                let mut all_done = true;
                for (si, sc) in f.scs.iter().enumerate() {
                    if s.scs[si].a < sc.attempts.len() {
                        all_done = false;
                        acts.push(Act::Sc(fi, None, si));
                    }
                }
                for (ri, r) in f.rules.iter().enumerate() {
                    if r.scs.iter().all(|s| s.attempts.is_empty()) && !r.bracket_when_empty {
                        continue;
                    }
                    let (rs, rf, rsc) = &s.rules[ri];
                    if !rs {
                        all_done = false;
                        acts.push(Act::RStart(fi, ri));
                        continue;
                    }
                    if *rf {
                        continue;
                    }
                    all_done = false;
                    let mut rdone = true;
                    for (si, sc) in r.scs.iter().enumerate() {
                        if rsc[si].a < sc.attempts.len() {
                            rdone = false;
                            acts.push(Act::Sc(fi, Some(ri), si));
                        }
                    }
                    if rdone {
                        acts.push(Act::RFin(fi, ri));
                    }
                }
                if all_done {
                    acts.push(Act::FFin(fi));
                }
            }
        }
        if acts.is_empty() {
            break;
        }
        let choice = if started_first && !run_started {
            Act::RunStarted
        } else if seq {
            let open_attempt = acts.iter().copied().find(|a| {
                if let Act::Sc(fi, ri, si) = a {
                    let s = match ri {
                        None => &st[*fi].scs[*si],
                        Some(r) => &st[*fi].rules[*r].2[*si],
                    };
                    s.e > 0
                } else {
                    false
                }
            });
            // Sequential order keeps an open attempt, then the open rule, then the open feature
            // going - but *which* of the open entity's items comes next is free: between two
            // attempts of a scenario its siblings (or, at feature level, a whole rule) may run.
            let open_rule: Vec<Act> = acts
                .iter()
                .copied()
                .filter(|a| match a {
                    Act::Sc(fi, Some(ri), _) | Act::RFin(fi, ri) => st[*fi].rules[*ri].0 && !st[*fi].rules[*ri].1,
                    _ => false,
                })
                .collect();
            let open_feat: Vec<Act> = acts
                .iter()
                .copied()
                .filter(|a| match a {
                    Act::Sc(fi, ..) | Act::RStart(fi, _) | Act::RFin(fi, _) | Act::FFin(fi) => st[*fi].started && !st[*fi].finished,
                    _ => false,
                })
                .collect();
            if let Some(a) = open_attempt {
                a
            } else if !open_rule.is_empty() {
                open_rule[pick(open_rule.len())]
            } else if !open_feat.is_empty() {
                open_feat[pick(open_feat.len())]
            } else {
                acts[pick(acts.len())]
            }
        } else {
            acts[pick(acts.len())]
        };
        match choice {
            Act::RunStarted => {
                run_started = true;
                out.push(stamp(Cucumber::Started, &mut clk));
            }
            Act::Err(i) => {
                errs_done += 1;
                clk += 1;
                out.push(Err(tree.errors[i].clone()));
            }
            Act::PF => {
                pf_done = true;
                out.push(stamp(
                    Cucumber::ParsingFinished {
                        features: tree.feats.len(),
                        rules: tree.feats.iter().map(|f| f.src.rules.len()).sum(),
                        scenarios: n_scenarios,
                        steps: n_steps,
                        parser_errors: tree.errors.len(),
                    },
                    &mut clk,
                ));
            }
            Act::FStart(fi) => {
                st[fi].started = true;
                out.push(stamp(Cucumber::feature_started(tree.feats[fi].src.clone()), &mut clk));
            }
            Act::FFin(fi) => {
                st[fi].finished = true;
                out.push(stamp(Cucumber::feature_finished(tree.feats[fi].src.clone()), &mut clk));
            }
            Act::RStart(fi, ri) => {
                st[fi].rules[ri].0 = true;
                out.push(stamp(Cucumber::rule_started(tree.feats[fi].src.clone(), tree.feats[fi].rules[ri].src.clone()), &mut clk));
            }
            Act::RFin(fi, ri) => {
                st[fi].rules[ri].1 = true;
                out.push(stamp(Cucumber::rule_finished(tree.feats[fi].src.clone(), tree.feats[fi].rules[ri].src.clone()), &mut clk));
            }
            Act::Sc(fi, ri, si) => {
                let (sc, s) = match ri {
                    None => (&tree.feats[fi].scs[si], &mut st[fi].scs[si]),
                    Some(r) => (&tree.feats[fi].rules[r].scs[si], &mut st[fi].rules[r].2[si]),
                };
                let a = &sc.attempts[s.a];
                let e = event::RetryableScenario { event: a.evs[s.e].clone(), retries: a.retries };
                s.e += 1;
                if s.e == a.evs.len() {
                    s.e = 0;
                    s.a += 1;
                }
                out.push(stamp(Cucumber::scenario(tree.feats[fi].src.clone(), ri.map(|r| tree.feats[fi].rules[r].src.clone()), sc.src.clone(), e), &mut clk));
            }
        }
    }
    out.push(stamp(Cucumber::Finished, &mut clk));
    out
}

// ------------------------------------------------------------------------------------------
// decoded keys (identity by Source pointer, so that same-named entities stay distinct)

#[derive(Clone, Debug, PartialEq, Eq, Hash, PartialOrd, Ord)]
pub enum StepRes {
    Started,
    Passed,
    Skipped,
    FailedPanic(String),
    FailedAmbiguous,
    FailedNotFound,
}

#[derive(Clone, Debug, PartialEq, Eq, Hash, PartialOrd, Ord)]
pub enum What {
    RunStarted,
    RunFinished,
    /// [features, rules, scenarios, steps, parser_errors]
    ParsingFinished([usize; 5]),
    ParserError(String),
    FeatureStarted,
    FeatureFinished,
    RuleStarted,
    RuleFinished,
    ScStarted,
    ScFinished,
    Log(String),
    HookStarted(bool),
    HookPassed(bool),
    HookFailed(bool, String),
    Step { bg: bool, text: String, line: usize, res: StepRes },
}

#[derive(Clone, Debug, PartialEq, Eq, Hash, PartialOrd, Ord)]
pub struct Key {
    pub f: usize,
    pub r: usize,
    pub s: usize,
    pub retries: Option<(usize, usize)>,
    pub what: What,
    pub at: u128,
    /// identity (address) of the `World` a failed step / hook event carries, 0 if none
    pub world: usize,
}

impl Key {
    pub fn is_scenario_event(&self) -> bool {
        self.s != 0
    }
    pub fn attempt(&self) -> (usize, usize, usize, Option<(usize, usize)>) {
        (self.f, self.r, self.s, self.retries)
    }
}

pub fn src_ptr<T>(s: &Source<T>) -> usize {
    let r: &T = s;
    std::ptr::from_ref(r) as usize
}

pub fn info_string(i: &event::Info) -> String {
    if let Some(s) = i.downcast_ref::<String>() {
        s.clone()
    } else if let Some(s) = i.downcast_ref::<&str>() {
        (*s).to_string()
    } else {
        "<?>".into()
    }
}

fn step_res(e: &Step<W>) -> StepRes {
    match e {
        Step::Started => StepRes::Started,
        Step::Passed(..) => StepRes::Passed,
        Step::Skipped => StepRes::Skipped,
        Step::Failed(_, _, _, err) => match err {
            StepError::NotFound => StepRes::FailedNotFound,
            StepError::AmbiguousMatch(_) => StepRes::FailedAmbiguous,
            StepError::Panic(i) => StepRes::FailedPanic(info_string(i)),
        },
    }
}

pub fn sc_what(e: &Scenario<W>) -> What {
    match e {
        Scenario::Started => What::ScStarted,
        Scenario::Finished => What::ScFinished,
        Scenario::Log(m) => What::Log(m.clone()),
        Scenario::Hook(t, h) => {
            let b = matches!(t, HookType::Before);
            match h {
                Hook::Started => What::HookStarted(b),
                Hook::Passed => What::HookPassed(b),
                Hook::Failed(_, i) => What::HookFailed(b, info_string(i)),
            }
        }
        Scenario::Background(s, e) => What::Step { bg: true, text: s.value.clone(), line: s.position.line, res: step_res(e) },
        Scenario::Step(s, e) => What::Step { bg: false, text: s.value.clone(), line: s.position.line, res: step_res(e) },
    }
}

fn world_of(e: &Ev) -> usize {
    let of_sc = |sc: &event::RetryableScenario<W>| -> usize {
        let w = match &sc.event {
            Scenario::Step(_, Step::Failed(_, _, w, _)) | Scenario::Background(_, Step::Failed(_, _, w, _)) => w.as_ref(),
            Scenario::Hook(_, Hook::Failed(w, _)) => w.as_ref(),
            _ => None,
        };
        w.map_or(0, |w| Arc::as_ptr(w) as usize)
    };
    match e.as_ref().map(|e| &e.value) {
        Ok(Cucumber::Feature(_, event::Feature::Scenario(_, sc))) => of_sc(sc),
        Ok(Cucumber::Feature(_, event::Feature::Rule(_, event::Rule::Scenario(_, sc)))) => of_sc(sc),
        _ => 0,
    }
}

pub fn decode(e: &Ev) -> Key {
    let world = world_of(e);
    let k = |f, r, s, retries, what, at| Key { f, r, s, retries, what, at, world };
    match e {
        Err(err) => k(0, 0, 0, None, What::ParserError(err.to_string()), 0),
        Ok(ev) => {
            let at = ev.at.duration_since(SystemTime::UNIX_EPOCH).map_or(0, |d| d.as_millis());
            match &ev.value {
                Cucumber::Started => k(0, 0, 0, None, What::RunStarted, at),
                Cucumber::Finished => k(0, 0, 0, None, What::RunFinished, at),
                Cucumber::ParsingFinished { features, rules, scenarios, steps, parser_errors } => k(0, 0, 0, None, What::ParsingFinished([*features, *rules, *scenarios, *steps, *parser_errors]), at),
                Cucumber::Feature(f, fe) => {
                    let fp = src_ptr(f);
                    match fe {
                        event::Feature::Started => k(fp, 0, 0, None, What::FeatureStarted, at),
                        event::Feature::Finished => k(fp, 0, 0, None, What::FeatureFinished, at),
                        event::Feature::Scenario(s, e) => k(fp, 0, src_ptr(s), e.retries.map(|r| (r.current, r.left)), sc_what(&e.event), at),
                        event::Feature::Rule(r, re) => {
                            let rp = src_ptr(r);
                            match re {
                                event::Rule::Started => k(fp, rp, 0, None, What::RuleStarted, at),
                                event::Rule::Finished => k(fp, rp, 0, None, What::RuleFinished, at),
                                event::Rule::Scenario(s, e) => k(fp, rp, src_ptr(s), e.retries.map(|r| (r.current, r.left)), sc_what(&e.event), at),
                            }
                        }
                    }
                }
            }
        }
    }
}

// ------------------------------------------------------------------------------------------
// recording writer

#[derive(Clone, Debug)]
pub enum Rec1 {
    Event(Key),
    Write(String),
}

#[derive(Clone, Default)]
pub struct Rec {
    pub log: Rc<RefCell<Vec<Rec1>>>,
    pub raw: Rc<RefCell<Vec<Ev>>>,
    /// Stats this stub writer reports (for the Tee / Or algebra).
    pub stats: [usize; 6],
}

impl Rec {
    pub fn keys(&self) -> Vec<Key> {
        self.log.borrow().iter().filter_map(|r| if let Rec1::Event(k) = r { Some(k.clone()) } else { None }).collect()
    }
}

impl Writer<W> for Rec {
    type Cli = cli::Empty;

    async fn handle_event(&mut self, e: Ev, _: &cli::Empty) {
        self.log.borrow_mut().push(Rec1::Event(decode(&e)));
        self.raw.borrow_mut().push(e);
    }
}

impl writer::Arbitrary<W, String> for Rec {
    async fn write(&mut self, v: String) {
        self.log.borrow_mut().push(Rec1::Write(v));
    }
}

impl writer::Stats<W> for Rec {
    fn passed_steps(&self) -> usize {
        self.stats[0]
    }
    fn skipped_steps(&self) -> usize {
        self.stats[1]
    }
    fn failed_steps(&self) -> usize {
        self.stats[2]
    }
    fn retried_steps(&self) -> usize {
        self.stats[3]
    }
    fn parsing_errors(&self) -> usize {
        self.stats[4]
    }
    fn hook_errors(&self) -> usize {
        self.stats[5]
    }
}

impl writer::NonTransforming for Rec {}
impl writer::Normalized for Rec {}

/// A shared byte sink for the reporters.
#[derive(Clone, Default)]
pub struct Sink(pub Rc<RefCell<Vec<u8>>>);

impl std::io::Write for Sink {
    fn write(&mut self, buf: &[u8]) -> std::io::Result<usize> {
        self.0.borrow_mut().extend_from_slice(buf);
        Ok(buf.len())
    }
    fn flush(&mut self) -> std::io::Result<()> {
        Ok(())
    }
}

pub fn describe_stream(stream: &[Ev], names: &dyn Fn(usize) -> String, limit: usize) -> Vec<String> {
    stream
        .iter()
        .take(limit)
        .map(|e| {
            let k = decode(e);
            format!("{}{}{}{} {:?}", names(k.f), if k.r != 0 { format!("/{}", names(k.r)) } else { String::new() }, if k.s != 0 { format!("/{}", names(k.s)) } else { String::new() }, k.retries.map_or(String::new(), |r| format!("#{}/{}", r.0, r.1)), k.what)
        })
        .collect()
}

/// name lookup table (Source pointer -> name) for a tree.
pub fn name_table(tree: &Tree) -> std::collections::HashMap<usize, String> {
    let mut m = std::collections::HashMap::new();
    for f in &tree.feats {
        m.insert(src_ptr(&f.src), f.src.name.clone());
        for s in &f.scs {
            m.insert(src_ptr(&s.src), format!("{}@{}", s.src.name, s.src.position.line));
        }
        for r in &f.rules {
            m.insert(src_ptr(&r.src), r.src.name.clone());
            for s in &r.scs {
                m.insert(src_ptr(&s.src), format!("{}@{}", s.src.name, s.src.position.line));
            }
        }
    }
    m
}
