//! StreamLab properties as `engine::Property` implementations.

use std::collections::HashMap;

use cucumber::event::{self, Cucumber};
use serde_json::json;

use super::{Ev, SProfile, Tree, What, c11, c12, c13, decode, describe_stream, gen_tree, linearise, linearise_full, name_table, src_ptr, verdict};
use crate::{
    engine::{CaseOut, Ctx, Exhaustive, Input, Property, Tier, Violation},
    lab,
    tape::{Tape, hash_str, tape_from_seed},
};

pub struct StreamProp {
    pub id: &'static str,
}

fn profile_for(id: &str, tier: Tier, ctx: &Ctx) -> SProfile {
    let mut p = SProfile::default();
    if tier == Tier::Thorough {
        p.max_features = 4;
        p.max_steps = 4;
    }
    match id {
        "C11" => {
            p.p_sequential = 15;
            p.p_parser_error = 15;
            p.p_empty_brackets = 20;
            p.log_fragments = true;
            p.p_twin_scenario = 15;
        }
        "C12" => {
            p.p_retry = 55;
            p.p_hook_fail = 15;
            p.outcome_w = [55, 14, 14, 6, 6];
            p.allow_notfound = true;
            p.p_dup_names = 15;
            p.p_sequential = 100;
            if ctx.is_known("C12/scenario-counters/non-final-hook-failure") {
                p.exclude_nonfinal_hook_failure = true;
            }
            if ctx.is_known("C12/scenario-counters/stale-retried-no-own-steps") {
                p.exclude_stale_retried = true;
            }
            if ctx.is_known("C12/scenario-counters/stale-retried-hook-failure") {
                p.exclude_hook_failure_after_retry = true;
            }
        }
        "C13" => {
            p.outcome_w = [50, 25, 12, 5, 0];
            p.p_allow_skipped = 30;
            p.p_hook_fail = 20;
            p.p_parser_error = 25;
        }
        "C14" => {
            // `Failed(NotFound)` is what reporters receive behind `FailOnSkipped`
            p.outcome_w = [55, 12, 14, 6, 6];
            p.allow_notfound = true;
            p.p_retry = 45;
            p.p_dup_names = 10;
            p.p_pathless = 25;
            p.p_twin_feature = 12;
            p.p_parser_error = 12;
            p.p_hook_fail = 15;
            if ctx.is_known("C14/libtest/started-result-pairing/pathless-feature") || ctx.is_known("C14/json/feature-split/pathless-feature") {
                p.exclude_pathless = true;
            }
            if ctx.is_known("C14/junit/malformed/cdata-terminator") {
                p.exclude_cdata_end = true;
            }
        }
        "C01" => {
            // the Libtest pipelines `print!` Log events to the worker's stdout (the protocol pipe)
            p.p_logs = 0;
            p.p_retry = 55;
            p.p_hook_fail = 15;
            p.outcome_w = [55, 14, 14, 6, 0];
            p.p_allow_skipped = 25;
            p.p_parser_error = 12;
            if ctx.is_known("C01/verdict/non-final-hook-failure") {
                p.exclude_nonfinal_hook_failure = true;
            }
        }
        _ => {}
    }
    p
}

/// Map scenario Source pointer -> inherited `@allow.skipped`, computed from the Sources the events carry.
pub fn allow_skipped_map(stream: &[Ev]) -> HashMap<usize, bool> {
    let mut m = HashMap::new();
    let has = |t: &[String]| t.iter().any(|x| x == "allow.skipped");
    for e in stream {
        if let Ok(ev) = e {
            if let Cucumber::Feature(f, fe) = &ev.value {
                match fe {
                    event::Feature::Scenario(s, _) => {
                        m.insert(src_ptr(s), has(&s.tags) || has(&f.tags));
                    }
                    event::Feature::Rule(r, event::Rule::Scenario(s, _)) => {
                        m.insert(src_ptr(s), has(&s.tags) || has(&r.tags) || has(&f.tags));
                    }
                    _ => {}
                }
            }
        }
    }
    m
}

fn sample(tree: &Tree, stream: &[Ev], extra: serde_json::Value) -> serde_json::Value {
    let names = name_table(tree);
    let f = |p: usize| if p == 0 { String::new() } else { names.get(&p).cloned().unwrap_or_else(|| format!("{p:x}")) };
    json!({"stream": describe_stream(stream, &f, 80), "n_events": stream.len(), "info": extra})
}

fn switches(stream: &[Ev]) -> (usize, usize) {
    // (#features seen, #times the feature of consecutive feature-level events changes)
    let mut last = 0usize;
    let mut sw = 0;
    let mut feats = std::collections::BTreeSet::new();
    for e in stream {
        let k = decode(e);
        if k.f != 0 {
            feats.insert(k.f);
            if last != 0 && last != k.f {
                sw += 1;
            }
            last = k.f;
        }
    }
    (feats.len(), sw)
}

fn run_c11(input: &Input, ctx: &Ctx, tier: Tier) -> CaseOut {
    let p = profile_for("C11", tier, ctx);
    let mut ta = Tape::new(input.a.clone());
    let seq = p.p_sequential > 0 && ta.rare(p.p_sequential, 100);
    let started_first = ta.chance(3, 4);
    let tree = gen_tree(&mut ta, &p);
    let mut tb = Tape::new(input.b.clone());
    let stream = linearise(&mut tb, &tree, seq, started_first);
    judge_c11(&tree, &stream, seq, ctx)
}

fn judge_c11(tree: &Tree, stream: &[Ev], seq: bool, ctx: &Ctx) -> CaseOut {
    // a few scenario events handled again after run-Finished
    let extra: Vec<Ev> = stream.iter().filter(|e| decode(e).is_scenario_event()).step_by(7).take(3).cloned().collect();
    let (violations, st) = c11::check(stream, seq, &extra);
    let (nf, sw) = switches(stream);
    let has_rule_or_retry = stream.iter().any(|e| {
        let k = decode(e);
        k.r != 0 || k.retries.is_some_and(|r| r.0 > 0)
    });
    let nontrivial = nf >= 2 && sw > nf && has_rule_or_retry && !seq;
    let mut labels = vec![];
    if seq {
        labels.push("sequential_input");
    }
    if st.max_buffered >= 5 {
        labels.push("buffered_5plus");
    }
    if nontrivial {
        labels.push("nontrivial");
    }
    let desc: String = stream.iter().map(|e| format!("{:?};", decode(e))).collect();
    CaseOut {
        violations,
        nontrivial,
        hash: hash_str(&desc),
        labels,
        sample: ctx.want_sample.then(|| sample(tree, stream, json!({"sequential": seq, "max_buffered": st.max_buffered}))),
        excluded: tree.excluded,
        harness_error: None,
        counters: vec![("events", stream.len() as u64)],
    }
}

fn own_steps_table(tree: &Tree) -> HashMap<usize, usize> {
    let mut m = HashMap::new();
    for f in &tree.feats {
        for s in &f.scs {
            m.insert(src_ptr(&s.src), s.src.steps.len());
        }
        for r in &f.rules {
            for s in &r.scs {
                m.insert(src_ptr(&s.src), s.src.steps.len());
            }
        }
    }
    m
}

fn run_c12(input: &Input, ctx: &Ctx, tier: Tier) -> CaseOut {
    let p = profile_for("C12", tier, ctx);
    let mut ta = Tape::new(input.a.clone());
    let with_repeat: u8 = [0, 0, 0, 1, 2][ta.pick(5)];
    let tree = gen_tree(&mut ta, &p);
    let mut tb = Tape::new(input.b.clone());
    let started_first = tb.chance(1, 2);
    let stream = linearise(&mut tb, &tree, true, started_first);
    let mut replay: Vec<Ev> = stream.iter().filter(|e| matches!(decode(e).what, What::Step { .. } | What::HookFailed(..) | What::ParserError(_) | What::ScFinished)).step_by(2).take(12).cloned().collect();
    // a repeat wrapper with a custom filter may also replay run-level events, run-Finished included
    if ta.chance(1, 2) {
        replay.extend(stream.iter().filter(|e| matches!(decode(e).what, What::RunStarted | What::ParsingFinished(_) | What::RunFinished)).cloned());
    }
    let own = own_steps_table(&tree);
    let out = c12::check(&stream, &replay, &|s| own.get(&s).copied().unwrap_or(1), with_repeat);
    let c = &out.recount;
    let nontrivial = c.has_retried_attempt && (c.hook_errors > 0 || c.has_skip);
    let mut labels = vec![];
    if with_repeat > 0 {
        labels.push("under_repeat");
    }
    if c.sc_aborted > 0 {
        labels.push("aborted_chain");
    }
    if c.has_retried_attempt {
        labels.push("retried_attempt");
    }
    if c.hook_errors > 0 {
        labels.push("hook_failure");
    }
    if nontrivial {
        labels.push("nontrivial");
    }
    let desc: String = stream.iter().map(|e| format!("{:?};", decode(e).what)).collect();
    CaseOut {
        violations: out.violations,
        nontrivial,
        hash: hash_str(&desc),
        labels,
        sample: ctx.want_sample.then(|| sample(&tree, &stream, json!({"recount": format!("{c:?}"), "with_repeat": with_repeat}))),
        excluded: tree.excluded,
        harness_error: None,
        counters: vec![("events", stream.len() as u64)],
    }
}

fn run_c13(input: &Input, ctx: &Ctx, tier: Tier) -> CaseOut {
    let p = profile_for("C13", tier, ctx);
    let mut ta = Tape::new(input.a.clone());
    let tree = gen_tree(&mut ta, &p);
    let mut tb = Tape::new(input.b.clone());
    let mode = tb.pick(4);
    // runner::Basic delivers parser errors and ParsingFinished of an eager parser *before*
    // run-Started: the wrappers must not depend on Started coming first
    let started_first = tb.chance(1, 2);
    let mut stream = linearise(&mut tb, &tree, mode == 0, started_first);
    if mode == 3 {
        // not contract-abiding: rotate and duplicate run-Finished in the middle
        let n = stream.len();
        let cut = tb.pick(n);
        stream.rotate_left(cut);
        let fin = stream.iter().find(|e| decode(e).what == What::RunFinished).cloned();
        if let Some(f) = fin {
            let pos = tb.pick(n);
            stream.insert(pos, f);
        }
    }
    let mut meta = HashMap::new();
    let allow = allow_skipped_map(&stream);
    for f in &tree.feats {
        for s in f.scs.iter().chain(f.rules.iter().flat_map(|r| r.scs.iter())) {
            let ptr = src_ptr(&s.src);
            meta.insert(ptr, c13::ScMeta { allow_skipped: allow.get(&ptr).copied().unwrap_or(false), line: s.src.position.line });
        }
    }
    let writes: Vec<Option<String>> = (0..stream.len()).map(|i| tb.rare(1, 10).then(|| format!("arbitrary-{i}"))).collect();
    let leaf_stats: Vec<[usize; 6]> = (0..3).map(|_| std::array::from_fn(|_| tb.pick(4))).collect();
    // every other case replaces the writer by its clone before one of the events
    let clone_at = tb.chance(1, 2).then(|| tb.pick(stream.len().max(1)));
    // every other case composes the nestings through the `WriterExt` methods
    let ext = tb.chance(1, 2);
    let mut violations = vec![];
    for entry in 0..c13::ZOO_SIZE {
        violations.extend(c13::check_entry(entry, &stream, &writes, &meta, &leaf_stats, clone_at, ext));
        if !violations.is_empty() {
            break;
        }
    }
    let keys: Vec<_> = stream.iter().map(decode).collect();
    let skipped_bg = keys.iter().any(|k| matches!(&k.what, What::Step { bg: true, res: super::StepRes::Skipped, .. }));
    let skipped = keys.iter().any(|k| matches!(&k.what, What::Step { res: super::StepRes::Skipped, .. }));
    let skipped_allowed = keys.iter().any(|k| matches!(&k.what, What::Step { res: super::StepRes::Skipped, .. }) && allow.get(&k.s).copied().unwrap_or(false));
    let hookf = keys.iter().any(|k| matches!(k.what, What::HookFailed(..)));
    let perr = keys.iter().any(|k| matches!(k.what, What::ParserError(_)));
    let nontrivial = skipped && (hookf || perr);
    let mut labels = vec![];
    if skipped_bg {
        labels.push("skipped_background_step");
    }
    if skipped_allowed {
        labels.push("skipped_under_allow_skipped");
    }
    if mode == 3 {
        labels.push("non_contract_stream");
    }
    if nontrivial {
        labels.push("nontrivial");
    }
    let desc: String = keys.iter().map(|k| format!("{:?};", k.what)).collect();
    CaseOut {
        violations,
        nontrivial,
        hash: hash_str(&format!("{desc}{writes:?}{leaf_stats:?}")),
        labels,
        sample: ctx.want_sample.then(|| sample(&tree, &stream, json!({"mode": mode, "leaf_stats": leaf_stats, "zoo_entries": c13::ZOO_SIZE}))),
        excluded: tree.excluded,
        harness_error: None,
        counters: vec![("events", stream.len() as u64), ("zoo_runs", c13::ZOO_SIZE as u64)],
    }
}

fn run_c14(input: &Input, ctx: &Ctx, tier: Tier) -> CaseOut {
    let mut p = profile_for("C14", tier, ctx);
    p.decorate = true;
    let mut ta = Tape::new(input.a.clone());
    let seq = ta.chance(1, 3);
    let o = super::c14::Opts { verbosity: ta.pick(3) as u8, show_output: ta.chance(1, 2), report_time: ta.chance(1, 3), junit_verbose: ta.chance(1, 3) };
    let tree = gen_tree(&mut ta, &p);
    let mut tb = Tape::new(input.b.clone());
    let started_first = tb.chance(1, 2);
    let stream = linearise(&mut tb, &tree, seq, started_first);
    crate::lab::driver::install_probe_hook();
    let mut violations = super::c14::check_all(&stream, &o);
    let own = own_steps_table(&tree);
    let (sv, summary_skipped) = super::c14::check_terminal_summary(&stream, &|s| own.get(&s).copied().unwrap_or(1));
    violations.extend(sv);
    let keys: Vec<_> = stream.iter().map(decode).collect();
    let retried = keys.iter().any(|k| k.retries.is_some_and(|r| r.0 > 0));
    let pathless = tree.feats.iter().any(|f| f.src.path.is_none());
    let markup = tree.feats.iter().any(|f| {
        let has = |s: &str| s.contains('<') || s.contains('&') || s.contains('"');
        has(&f.src.name) || f.src.scenarios.iter().chain(f.src.rules.iter().flat_map(|r| r.scenarios.iter())).any(|s| has(&s.name) || s.steps.iter().any(|x| has(&x.value)))
    });
    let nontrivial = retried && markup;
    let mut labels = vec![];
    if retried {
        labels.push("retried_attempt");
    }
    if pathless {
        labels.push("pathless_feature");
    }
    if markup {
        labels.push("markup_in_names");
    }
    if keys.iter().any(|k| matches!(k.what, What::HookFailed(..))) {
        labels.push("hook_failure");
    }
    if keys.iter().any(|k| matches!(k.what, What::ParserError(_))) {
        labels.push("parser_error");
    }
    labels.push(if summary_skipped { "summary_totals_not_compared_known_shape" } else { "summary_totals_compared" });
    if nontrivial {
        labels.push("nontrivial");
    }
    let desc: String = keys.iter().map(|k| format!("{:?};", k.what)).collect();
    let names: String = tree.feats.iter().map(|f| f.src.name.clone()).collect();
    CaseOut {
        violations,
        nontrivial,
        hash: hash_str(&format!("{desc}{names}{o:?}")),
        labels,
        sample: ctx.want_sample.then(|| sample(&tree, &stream, json!({"options": format!("{o:?}"), "sequential": seq}))),
        excluded: tree.excluded,
        harness_error: None,
        counters: vec![("events", stream.len() as u64), ("reports", 4)],
    }
}

/// C01: alternates between RunnerLab runs (real runner -> recorded stream) and StreamLab streams.
fn run_c01(input: &Input, ctx: &Ctx, tier: Tier) -> CaseOut {
    crate::lab::driver::install_probe_hook();
    let mut sel = Tape::new(input.a.clone());
    let from_runner = sel.chance(1, 2);
    let a_rest: Vec<u32> = input.a.iter().skip(1).copied().collect();
    let mut tb = Tape::new(input.b.clone());
    let mut labels = vec![];
    // parser errors the lab parser handed to the runner (real runs only)
    let mut delivered_parser_errors: Option<usize> = None;
    let (stream, sample_v, excluded, hash_src, herr): (Vec<Ev>, serde_json::Value, u64, String, Option<String>) = if from_runner {
        labels.push("from_real_runner");
        let profile = lab::props::profile_for("C01", tier, ctx);
        let j = lab::props::execute(&Input { a: a_rest, b: input.b.clone() }, &profile);
        let (endv, herr) = lab::oracles::check_end(&j.log);
        if !endv.is_empty() || !j.m.violations.is_empty() || herr.is_some() {
            // layer (i) is decided by C02 / C04 / C10 on the same case; not judged here
            labels.push("foreign_violation");
            return CaseOut { labels, harness_error: herr, excluded: j.case.excluded, ..CaseOut::default() };
        }
        let desc = j.case.describe();
        delivered_parser_errors = Some(lab::oracles::delivered(&j.case, &j.log).errors.len());
        (j.log.raw.clone(), json!({"runner_case": desc, "n_events": j.log.raw.len()}), j.case.excluded, desc.to_string(), None)
    } else {
        labels.push("from_stream_generator");
        let p = profile_for("C01", tier, ctx);
        let mut ta = Tape::new(a_rest);
        let seq = ta.chance(1, 4);
        let tree = gen_tree(&mut ta, &p);
        let started_first = tb.chance(1, 2);
        let stream = linearise(&mut tb, &tree, seq, started_first);
        let s = sample(&tree, &stream, json!({}));
        let d: String = stream.iter().map(|e| format!("{:?};", decode(e).what)).collect();
        (stream, s, tree.excluded, d, None)
    };
    let allow = allow_skipped_map(&stream);
    // a tape-chosen subset of pipelines (all of them every 4th case)
    let all: Vec<usize> = (0..verdict::N_PIPELINES).collect();
    let chosen: Vec<usize> = if ctx.strict || tb.chance(1, 4) { all } else { (0..4).map(|_| tb.pick(verdict::N_PIPELINES)).collect() };
    let out = verdict::check(&stream, &allow, &chosen);
    let mut violations = out.violations;
    if violations.is_empty() || ctx.strict {
        let fos = tb.chance(1, 2);
        let lt = tb.chance(1, 3);
        violations.extend(verdict::check_run_and_exit(&stream, &allow, fos, lt));
    }
    if input.b.first().is_some_and(|x| x % 8 == 0) {
        // "a failed step" also when it fails by *returning* Err from a function defined through
        // the attribute macros (every spelling of the return type in the C19 zoo): the real
        // runner's events over such steps, judged by the summarizing writer
        let mut tz = crate::tape::Tape::new(input.b.iter().rev().copied().collect());
        let (v, _) = crate::func::c19::check_macro_step_errors(&mut tz, "C01/macro-step-error");
        violations.extend(v.into_iter().filter(|v| v.sig.ends_with("/verdict")));
        labels.push("macro_steps_returning_err");
    }
    crate::lab::driver::install_probe_hook();
    let x = &out.expected;
    // "failed iff a parser error was *delivered*": the stream the writers judge must not have lost it
    if let Some(d) = delivered_parser_errors {
        if d > 0 && x.parser_errors == 0 && !x.failed(true) {
            violations.push(crate::engine::Violation::new(
                "C01/verdict/delivered-parser-error-lost".to_string(),
                format!("the parser delivered {d} error(s) to the runner, but its event stream carries none and nothing else failed: every stats writer reports the run as passed ({x:?})"),
            ));
        }
    }
    let nontrivial = x.nonfinal_failures > 0 || x.final_hook_failures + x.nonfinal_hook_failures > 0 || x.skipped_allowed + x.skipped_not_allowed > 0 || x.parser_errors > 0;
    if x.nonfinal_failures > 0 {
        labels.push("nonfinal_failure");
    }
    if x.final_failures == 0 && x.nonfinal_failures > 0 {
        labels.push("recovered_by_retry");
    }
    if x.skipped_allowed > 0 {
        labels.push("skipped_allowed");
    }
    if x.parser_errors > 0 {
        labels.push("parser_error");
    }
    if nontrivial {
        labels.push("nontrivial");
    }
    CaseOut {
        violations,
        nontrivial,
        hash: hash_str(&format!("{hash_src}{chosen:?}")),
        labels,
        sample: ctx.want_sample.then(|| json!({"source": sample_v, "pipelines": chosen, "expected": format!("{x:?}")})),
        excluded,
        harness_error: herr,
        counters: vec![("events", stream.len() as u64), ("pipeline_runs", chosen.len() as u64 + 1)],
    }
}

impl Property for StreamProp {
    fn id(&self) -> &'static str {
        self.id
    }

    fn rule(&self) -> String {
        match self.id {
            "C11" => "StreamLab: tape a -> run tree (features/rules/scenarios/retry chains, per-attempt events from the reference attempt model over random outcomes, parser errors); tape b -> a random linearisation respecting happened-before (or the sequential one). Oracle runs after every handle_event call of Normalize<Recorder>. Non-trivial iff >=2 features whose events interleave (more feature switches than features) and >=1 rule or retried attempt. Distinct = hash of the decoded stream.".into(),
            "C12" => "StreamLab: normalised (sequential) streams with every outcome path, fed to Summarize<Recorder> (every 3rd case under Repeat::failed); independent recount. Non-trivial iff >=1 retried attempt and >=1 hook failure or skipped step. Distinct = hash of the decoded stream.".into(),
            "C13" => "StreamLab: arbitrary streams (sequential, interleaved, or rotated with a duplicated run-Finished) fed to each of 20 compiled nestings of FailOnSkipped/Repeat/Tee/Or/discard over recorder leaves with arbitrary Stats; a reference interpreter of the nesting's description predicts every leaf's exact sequence. Non-trivial iff the stream has a skipped step and a failed hook or parser error. Distinct = hash of stream + writes + leaf stats.".into(),
            "C14" => "StreamLab: contract-abiding linearisations over features with decorated names (quotes, markup, non-ASCII, `]]>`), with/without path, same-named scenarios, retries, hook failures, parser errors; reporter options from the tape; output of Normalize<Basic|Libtest|Json|JUnit> parsed back by hand-written line / JSON / XML parsers into fact multisets compared with the stream's facts (both inclusions); Basic also with colours on, rendered through a VT interpreter; the [Summary] totals of Summarize<Normalize<Basic>> compared with the entries (streams with the D2/D5 shapes or an aborted retry chain not compared, counted). Non-trivial iff a retried attempt and a name containing markup. Distinct = hash of stream + names + options.".into(),
            "C01" => "Half of the cases run the real runner (RunnerLab: features x outcome plans x configuration x schedule) and record its stream, half generate contract-abiding streams directly (StreamLab); the stream is fed to a tape-chosen subset of 13 built-in stats pipelines (Summarize<Normalize<Basic>>, Normalize<Libtest>, Tee, Or, each with/without FailOnSkipped/Repeat) and to Cucumber::run_and_exit over a replaying runner; verdict recomputed from the stream. Non-trivial iff the stream has a non-final failure, a hook failure, a skipped step or a parser error.".into(),
            _ => String::new(),
        }
    }

    fn assumptions(&self) -> Vec<String> {
        match self.id {
            "C12" => vec!["aborted retry chains are unconstrained for scenario classification (reading R2)".into(), "`features` / `rules` are read back from the summary text (no getter exists)".into()],
            "C01" => vec!["final = retries None or left == 0, or failure kind NotFound (reading R1)".into(), "Or predicates are constant per run (as in Libtest::or)".into(), "user code -> stream is decided by C02/C10; runs they reject are not judged here".into()],
            _ => vec![],
        }
    }

    fn tape_lens(&self, tier: Tier) -> (usize, usize) {
        match (self.id, tier) {
            ("C01", Tier::Quick) => (700, 200),
            ("C01", Tier::Thorough) => (1000, 300),
            (_, Tier::Quick) => (500, 400),
            (_, Tier::Thorough) => (800, 700),
        }
    }

    fn cases(&self, tier: Tier) -> u64 {
        let q = match self.id {
            "C11" => 30_000,
            "C12" => 60_000,
            "C13" => 8_000,
            "C14" => 10_000,
            "C01" => 8_000,
            _ => 1000,
        };
        match tier {
            Tier::Quick => q,
            Tier::Thorough => q * 20,
        }
    }

    fn floors(&self) -> Vec<(&'static str, f64)> {
        vec![("nontrivial", 0.05)]
    }

    fn run(&self, input: &Input, ctx: &Ctx) -> CaseOut {
        match self.id {
            "C11" => run_c11(input, ctx, ctx.tier),
            "C12" => run_c12(input, ctx, ctx.tier),
            "C13" => run_c13(input, ctx, ctx.tier),
            "C01" => run_c01(input, ctx, ctx.tier),
            "C14" => run_c14(input, ctx, ctx.tier),
            _ => CaseOut::default(),
        }
    }

    fn exhaustive(&self, tier: Tier, shard: (u64, u64), ctx: &Ctx, sink: &mut dyn FnMut(CaseOut, Input) -> bool) -> Option<Exhaustive> {
        if self.id != "C11" {
            return None;
        }
        // all linearisations of small run trees
        let n_trees: u64 = if tier == Tier::Quick { 24 } else { 400 };
        let cap: usize = if tier == Tier::Quick { 4000 } else { 40_000 };
        let max_events: usize = if tier == Tier::Quick { 15 } else { 17 };
        let p = SProfile { max_features: 2, max_scenarios: 1, max_rules: 1, max_rule_scenarios: 1, max_steps: 1, max_bg: 0, p_before: 0, p_after: 10, p_retry: 35, p_parser_error: 10, p_sequential: 0, ..SProfile::default() };
        let mut complete = true;
        let mut total = 0u64;
        let (mut included, mut truncated) = (0u64, 0u64);
        'trees: for ti in (0..n_trees).filter(|t| t % shard.1 == shard.0) {
            let a = tape_from_seed(crate::tape::mix(0xC11, ti), 200);
            let mut prefix: Vec<usize> = vec![];
            let mut n = 0usize;
            loop {
                let mut ta = Tape::new(a.clone());
                let _ = ta.rare(0, 100);
                let tree = gen_tree(&mut ta, &p);
                let mut branching: Vec<(usize, usize)> = vec![];
                let mut i = 0usize;
                let stream = linearise_full(
                    &mut |k| {
                        let c = prefix.get(i).copied().unwrap_or(0).min(k.saturating_sub(1));
                        i += 1;
                        if k > 1 {
                            branching.push((c, k));
                        } else {
                            branching.push((0, 1));
                        }
                        c
                    },
                    &tree,
                    false,
                    true,
                    true,
                );
                if stream.len() > max_events {
                    break; // tree outside the enumerated sub-space
                }
                let out = judge_c11(&tree, &stream, false, &Ctx { want_sample: n == 0 && ti < 2, tier, known: ctx.known.clone(), strict: false });
                total += 1;
                let b: Vec<u32> = branching.iter().map(|(c, k)| (((*c as u64) << 32).div_ceil(*k as u64)).min(u64::from(u32::MAX)) as u32).collect();
                if !sink(out, Input { a: a.clone(), b }) {
                    complete = false;
                    break 'trees;
                }
                n += 1;
                let mut next = None;
                for j in (0..branching.len()).rev() {
                    if branching[j].0 + 1 < branching[j].1 {
                        let mut np: Vec<usize> = branching[..j].iter().map(|x| x.0).collect();
                        np.push(branching[j].0 + 1);
                        next = Some(np);
                        break;
                    }
                }
                match next {
                    Some(np) if n < cap => prefix = np,
                    Some(_) => {
                        truncated += 1;
                        break;
                    }
                    None => {
                        included += 1;
                        break;
                    }
                }
            }
        }
        let _ = total;
        Some(Exhaustive { description: format!("all happened-before-respecting linearisations (cap {cap} per tree) of those of {n_trees} generated small run trees (<=2 features, <=1+1 scenarios each, <=1 step, retry chains) that have <= {max_events} events and at most {cap} linearisations (parser items pinned right behind run-Started), sharded over the workers"), complete, included, truncated })
    }
}

#[allow(dead_code)]
fn _unused(_: Violation) {}
