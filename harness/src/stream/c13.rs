//! C13: writer combinators are transparent (fail_on_skipped, repeat, tee, or, discard).
//!
//! A compiled-in zoo of nestings, each paired with a *data* description of itself; a reference
//! interpreter of the description predicts, for every recorder leaf, the exact sequence of
//! events and arbitrary writes.

use std::collections::HashMap;

use cucumber::{
    Writer, cli,
    event::{self, Cucumber},
    gherkin,
    writer::{self, Arbitrary as _, Stats as _, discard},
};
use futures::executor::block_on;

use super::{Ev, Key, Rec, Rec1, StepRes, What, decode};
use crate::{engine::Violation, lab::W};

fn v(sig: &str, msg: String) -> Violation {
    Violation::new(format!("C13/{sig}"), msg)
}

// ------------------------------------------------------------------------------------------
// description language

#[derive(Clone, Copy, Debug, PartialEq)]
pub enum Pred {
    /// default: no inherited `@allow.skipped`
    Default,
    /// custom: scenario declared on an even line
    EvenLine,
}

#[derive(Clone, Copy, Debug, PartialEq)]
pub enum Filter {
    Skipped,
    Failed,
    /// custom: failed hooks and ParsingFinished
    HooksAndParsingFinished,
    /// custom: every event (run-Finished itself included)
    Everything,
    /// custom: run-level events only (run-Started, parser errors, ParsingFinished, run-Finished)
    RunLevel,
}

#[derive(Clone, Copy, Debug, PartialEq)]
pub enum OrPred {
    /// scenario-level events go left, everything else right
    ScenarioEventsLeft,
    /// events with an even timestamp go left
    EvenTimestampLeft,
}

#[derive(Clone, Debug)]
pub enum Desc {
    Leaf(usize),
    FailOnSkipped(Box<Desc>, Pred),
    Repeat(Box<Desc>, Filter),
    Tee(Box<Desc>, Box<Desc>),
    Or(Box<Desc>, Box<Desc>, OrPred),
    DiscardArbitrary(Box<Desc>),
    DiscardStats(Box<Desc>),
}

#[derive(Clone, Debug, PartialEq)]
pub enum Item {
    Event(Key),
    Write(String),
}

pub struct ScMeta {
    pub allow_skipped: bool,
    pub line: usize,
}

// ------------------------------------------------------------------------------------------
// reference interpreter

pub struct Interp<'a> {
    pub leaves: Vec<Vec<Item>>,
    pub meta: &'a HashMap<usize, ScMeta>,
    /// per Repeat node (by path string) buffer
    buffers: HashMap<String, Vec<Key>>,
}

fn filter_matches(f: Filter, k: &Key) -> bool {
    match f {
        Filter::Skipped => matches!(&k.what, What::Step { res: StepRes::Skipped, .. }),
        Filter::Failed => matches!(
            &k.what,
            What::Step { res: StepRes::FailedPanic(_) | StepRes::FailedAmbiguous | StepRes::FailedNotFound, .. } | What::HookFailed(..) | What::ParserError(_)
        ),
        Filter::HooksAndParsingFinished => matches!(&k.what, What::HookFailed(..) | What::ParsingFinished(_)),
        Filter::Everything => true,
        Filter::RunLevel => matches!(&k.what, What::RunStarted | What::ParserError(_) | What::ParsingFinished(_) | What::RunFinished),
    }
}

impl<'a> Interp<'a> {
    pub fn new(n_leaves: usize, meta: &'a HashMap<usize, ScMeta>) -> Self {
        Self { leaves: vec![vec![]; n_leaves], meta, buffers: HashMap::new() }
    }

    pub fn event(&mut self, d: &Desc, k: Key, path: &str) {
        match d {
            Desc::Leaf(i) => self.leaves[*i].push(Item::Event(k)),
            Desc::FailOnSkipped(inner, pred) => {
                let mut k = k;
                if let What::Step { bg, text, line, res: StepRes::Skipped } = &k.what {
                    let m = self.meta.get(&k.s);
                    let should_fail = match pred {
                        Pred::Default => !m.is_some_and(|m| m.allow_skipped),
                        Pred::EvenLine => m.is_some_and(|m| m.line % 2 == 0),
                    };
                    if should_fail {
                        k.what = What::Step { bg: *bg, text: text.clone(), line: *line, res: StepRes::FailedNotFound };
                    }
                }
                self.event(inner, k, &format!("{path}f"));
            }
            Desc::Repeat(inner, f) => {
                let p = format!("{path}r");
                if filter_matches(*f, &k) {
                    self.buffers.entry(p.clone()).or_default().push(k.clone());
                }
                let fin = k.what == What::RunFinished;
                self.event(inner, k, &p);
                if fin {
                    for e in self.buffers.remove(&p).unwrap_or_default() {
                        self.event(inner, e, &p);
                    }
                }
            }
            Desc::Tee(l, r) => {
                self.event(l, k.clone(), &format!("{path}l"));
                self.event(r, k, &format!("{path}R"));
            }
            Desc::Or(l, r, p) => {
                let left = match p {
                    OrPred::ScenarioEventsLeft => k.is_scenario_event(),
                    OrPred::EvenTimestampLeft => k.at % 2 == 0,
                };
                if left {
                    self.event(l, k, &format!("{path}l"));
                } else {
                    self.event(r, k, &format!("{path}R"));
                }
            }
            Desc::DiscardArbitrary(inner) | Desc::DiscardStats(inner) => self.event(inner, k, &format!("{path}d")),
        }
    }

    pub fn write(&mut self, d: &Desc, s: &str) {
        match d {
            Desc::Leaf(i) => self.leaves[*i].push(Item::Write(s.to_string())),
            Desc::FailOnSkipped(inner, _) | Desc::Repeat(inner, _) | Desc::DiscardStats(inner) => self.write(inner, s),
            Desc::Tee(l, r) => {
                self.write(l, s);
                self.write(r, s);
            }
            Desc::Or(..) => unreachable!("Or does not implement Arbitrary"),
            Desc::DiscardArbitrary(_) => {}
        }
    }
}

/// Reference statistics algebra.
pub fn ref_stats(d: &Desc, leaf_stats: &[[usize; 6]]) -> [usize; 6] {
    match d {
        Desc::Leaf(i) => leaf_stats[*i],
        Desc::FailOnSkipped(inner, _) | Desc::Repeat(inner, _) | Desc::DiscardArbitrary(inner) => ref_stats(inner, leaf_stats),
        Desc::DiscardStats(_) => [0; 6],
        Desc::Tee(l, r) => {
            let (a, b) = (ref_stats(l, leaf_stats), ref_stats(r, leaf_stats));
            std::array::from_fn(|i| a[i].max(b[i]))
        }
        Desc::Or(l, r, _) => {
            let (a, b) = (ref_stats(l, leaf_stats), ref_stats(r, leaf_stats));
            std::array::from_fn(|i| a[i] + b[i])
        }
    }
}

// ------------------------------------------------------------------------------------------
// the zoo

pub trait DynWriter {
    fn handle(&mut self, e: Ev);
    /// `false` if the nesting does not implement `Arbitrary<W, String>`.
    fn write(&mut self, s: String) -> bool;
    fn stats(&self) -> [usize; 6];
    /// Continues with a `Clone` of the writer (the original is dropped): every wrapper is `Clone`,
    /// and a clone taken in mid-run carries on where the original stood.
    fn swap_for_clone(&mut self);
}

struct Dw<T, C> {
    w: T,
    cli: C,
}

macro_rules! dyn_writer {
    ($ty:ty, $cli:ty, arbitrary = $arb:tt) => {
        impl DynWriter for Dw<$ty, $cli> {
            fn handle(&mut self, e: Ev) {
                block_on(self.w.handle_event(e, &self.cli));
            }
            fn write(&mut self, s: String) -> bool {
                dyn_writer!(@write self, s, $arb)
            }
            fn swap_for_clone(&mut self) {
                let c = self.w.clone();
                self.w = c;
            }
            fn stats(&self) -> [usize; 6] {
                [self.w.passed_steps(), self.w.skipped_steps(), self.w.failed_steps(), self.w.retried_steps(), self.w.parsing_errors(), self.w.hook_errors()]
            }
        }
    };
    (@write $self:ident, $s:ident, true) => {{
        block_on($self.w.write($s));
        true
    }};
    (@write $self:ident, $s:ident, false) => {{
        let _ = $s;
        false
    }};
}

type E = cli::Empty;
type C2 = cli::Compose<E, E>;
type SkipPred = fn(&gherkin::Feature, Option<&gherkin::Rule>, &gherkin::Scenario) -> bool;
type EvFilter = fn(&Ev) -> bool;
type OrFn<L, R> = fn(&Ev, &cli::Compose<L, R>) -> bool;

fn even_line(_: &gherkin::Feature, _: Option<&gherkin::Rule>, s: &gherkin::Scenario) -> bool {
    s.position.line % 2 == 0
}

fn hooks_and_pf(e: &Ev) -> bool {
    matches!(decode(e).what, What::HookFailed(..) | What::ParsingFinished(_))
}

fn all_events(_: &Ev) -> bool {
    true
}

fn run_level(e: &Ev) -> bool {
    matches!(decode(e).what, What::RunStarted | What::ParserError(_) | What::ParsingFinished(_) | What::RunFinished)
}

fn sc_left<L: cli::Args, R: cli::Args>(e: &Ev, _: &cli::Compose<L, R>) -> bool {
    matches!(
        e.as_ref().map(|e| &e.value),
        Ok(Cucumber::Feature(_, event::Feature::Scenario(..) | event::Feature::Rule(_, event::Rule::Scenario(..))))
    )
}

fn even_ts<L: cli::Args, R: cli::Args>(e: &Ev, _: &cli::Compose<L, R>) -> bool {
    decode(e).at % 2 == 0
}

type T1 = writer::FailOnSkipped<Rec>;
type T2 = writer::FailOnSkipped<Rec, SkipPred>;
type T3 = writer::Repeat<W, Rec>;
type T5 = writer::Repeat<W, Rec, EvFilter>;
type T6 = writer::FailOnSkipped<writer::Repeat<W, Rec>>;
type T7 = writer::Tee<writer::Repeat<W, Rec>, writer::Repeat<W, Rec>>;
type T8 = writer::Tee<Rec, Rec>;
type T9 = writer::Tee<writer::FailOnSkipped<Rec>, writer::Repeat<W, Rec>>;
type T10 = writer::Or<Rec, Rec, OrFn<E, E>>;
type T11 = writer::Or<writer::Tee<Rec, Rec>, Rec, OrFn<C2, E>>;
type T12 = discard::Arbitrary<Rec>;
type T13 = discard::Stats<Rec>;
type T14 = writer::Tee<discard::Arbitrary<Rec>, Rec>;
type T15 = writer::FailOnSkipped<writer::Tee<Rec, writer::Repeat<W, Rec>>>;
type T16 = writer::Or<writer::FailOnSkipped<Rec>, writer::Repeat<W, Rec>, OrFn<E, E>>;
type T17 = writer::Repeat<W, writer::Tee<Rec, Rec>>;
type T18 = writer::Tee<discard::Stats<Rec>, writer::FailOnSkipped<Rec, SkipPred>>;
type T19 = writer::Tee<writer::Repeat<W, Rec, EvFilter>, Rec>;

dyn_writer!(T1, E, arbitrary = true);
dyn_writer!(T3, E, arbitrary = true);
dyn_writer!(T6, E, arbitrary = true);
dyn_writer!(T7, C2, arbitrary = true);
dyn_writer!(T8, C2, arbitrary = true);
dyn_writer!(T9, C2, arbitrary = true);
dyn_writer!(T10, C2, arbitrary = false);
dyn_writer!(T11, cli::Compose<C2, E>, arbitrary = false);
dyn_writer!(T12, E, arbitrary = true);
dyn_writer!(T13, E, arbitrary = true);
dyn_writer!(T14, C2, arbitrary = true);
dyn_writer!(T15, C2, arbitrary = true);
dyn_writer!(T16, C2, arbitrary = false);
dyn_writer!(T17, C2, arbitrary = true);
dyn_writer!(T18, C2, arbitrary = true);
dyn_writer!(T19, C2, arbitrary = true);

pub const ZOO_SIZE: usize = 20;

fn b(d: Desc) -> Box<Desc> {
    Box::new(d)
}

/// Builds zoo entry `i` over the given recorder leaves; returns the writer, its description and
/// the number of leaves used.
pub fn zoo(i: usize, r: &[Rec]) -> (Box<dyn DynWriter>, Desc, &'static str) {
    use Desc::{DiscardArbitrary as DA, DiscardStats as DS, FailOnSkipped as F, Leaf as L, Or as O, Repeat as R, Tee as T};
    let e = E::default;
    let c2 = C2::default;
    match i {
        0 => (Box::new(Dw { w: T1::new(r[0].clone()), cli: e() }), F(b(L(0)), Pred::Default), "FailOnSkipped<Rec>"),
        1 => (Box::new(Dw { w: T2::with(r[0].clone(), even_line as SkipPred), cli: e() }), F(b(L(0)), Pred::EvenLine), "FailOnSkipped<Rec, custom>"),
        2 => (Box::new(Dw { w: T3::skipped(r[0].clone()), cli: e() }), R(b(L(0)), Filter::Skipped), "Repeat::skipped<Rec>"),
        3 => (Box::new(Dw { w: T3::failed(r[0].clone()), cli: e() }), R(b(L(0)), Filter::Failed), "Repeat::failed<Rec>"),
        4 => (Box::new(Dw { w: T5::new(r[0].clone(), hooks_and_pf as EvFilter), cli: e() }), R(b(L(0)), Filter::HooksAndParsingFinished), "Repeat::new<Rec, custom>"),
        5 => (Box::new(Dw { w: T6::new(writer::Repeat::failed(r[0].clone())), cli: e() }), F(b(R(b(L(0)), Filter::Failed)), Pred::Default), "FailOnSkipped<Repeat::failed<Rec>>"),
        6 => (
            Box::new(Dw { w: T7::new(writer::Repeat::skipped(r[0].clone()), writer::Repeat::failed(r[1].clone())), cli: c2() }),
            T(b(R(b(L(0)), Filter::Skipped)), b(R(b(L(1)), Filter::Failed))),
            "Tee<Repeat::skipped<Rec>, Repeat::failed<Rec>>",
        ),
        7 => (Box::new(Dw { w: T8::new(r[0].clone(), r[1].clone()), cli: c2() }), T(b(L(0)), b(L(1))), "Tee<Rec, Rec>"),
        8 => (
            Box::new(Dw { w: T9::new(writer::FailOnSkipped::new(r[0].clone()), writer::Repeat::failed(r[1].clone())), cli: c2() }),
            T(b(F(b(L(0)), Pred::Default)), b(R(b(L(1)), Filter::Failed))),
            "Tee<FailOnSkipped<Rec>, Repeat::failed<Rec>>",
        ),
        9 => (Box::new(Dw { w: T10::new(r[0].clone(), r[1].clone(), sc_left::<E, E> as OrFn<E, E>), cli: c2() }), O(b(L(0)), b(L(1)), OrPred::ScenarioEventsLeft), "Or<Rec, Rec, scenario-events-left>"),
        10 => (
            Box::new(Dw { w: T11::new(writer::Tee::new(r[0].clone(), r[1].clone()), r[2].clone(), even_ts::<C2, E> as OrFn<C2, E>), cli: cli::Compose::<C2, E>::default() }),
            O(b(T(b(L(0)), b(L(1)))), b(L(2)), OrPred::EvenTimestampLeft),
            "Or<Tee<Rec, Rec>, Rec, even-timestamp-left>",
        ),
        11 => (Box::new(Dw { w: T12::wrap(r[0].clone()), cli: e() }), DA(b(L(0))), "discard::Arbitrary<Rec>"),
        12 => (Box::new(Dw { w: T13::wrap(r[0].clone()), cli: e() }), DS(b(L(0))), "discard::Stats<Rec>"),
        13 => (Box::new(Dw { w: T14::new(discard::Arbitrary::wrap(r[0].clone()), r[1].clone()), cli: c2() }), T(b(DA(b(L(0)))), b(L(1))), "Tee<discard::Arbitrary<Rec>, Rec>"),
        14 => (
            Box::new(Dw { w: T15::new(writer::Tee::new(r[0].clone(), writer::Repeat::skipped(r[1].clone()))), cli: c2() }),
            F(b(T(b(L(0)), b(R(b(L(1)), Filter::Skipped)))), Pred::Default),
            "FailOnSkipped<Tee<Rec, Repeat::skipped<Rec>>>",
        ),
        15 => (
            Box::new(Dw { w: T16::new(writer::FailOnSkipped::new(r[0].clone()), writer::Repeat::failed(r[1].clone()), even_ts::<E, E> as OrFn<E, E>), cli: c2() }),
            O(b(F(b(L(0)), Pred::Default)), b(R(b(L(1)), Filter::Failed)), OrPred::EvenTimestampLeft),
            "Or<FailOnSkipped<Rec>, Repeat::failed<Rec>, even-timestamp-left>",
        ),
        16 => (Box::new(Dw { w: T17::failed(writer::Tee::new(r[0].clone(), r[1].clone())), cli: c2() }), R(b(T(b(L(0)), b(L(1)))), Filter::Failed), "Repeat::failed<Tee<Rec, Rec>>"),
        18 => (Box::new(Dw { w: T5::new(r[0].clone(), all_events as EvFilter), cli: e() }), R(b(L(0)), Filter::Everything), "Repeat::new<Rec, every event>"),
        19 => (
            Box::new(Dw { w: T19::new(writer::Repeat::new(r[0].clone(), run_level as EvFilter), r[1].clone()), cli: c2() }),
            T(b(R(b(L(0)), Filter::RunLevel)), b(L(1))),
            "Tee<Repeat::new<Rec, run-level events>, Rec>",
        ),
        _ => (
            Box::new(Dw { w: T18::new(discard::Stats::wrap(r[0].clone()), writer::FailOnSkipped::with(r[1].clone(), even_line as SkipPred)), cli: c2() }),
            T(b(DS(b(L(0)))), b(F(b(L(1)), Pred::EvenLine))),
            "Tee<discard::Stats<Rec>, FailOnSkipped<Rec, custom>>",
        ),
    }
}

/// Zoo entry `i` once more, composed the way user code does it: through the `WriterExt` methods
/// (`writer.repeat_failed().fail_on_skipped()` ...) instead of the constructors. `Or` has no such
/// method.
pub fn zoo_ext(i: usize, r: &[Rec]) -> Option<Box<dyn DynWriter>> {
    use cucumber::WriterExt as _;
    let e = E::default;
    let c2 = C2::default;
    let (r0, r1) = (r[0].clone(), r[1].clone());
    Some(match i {
        0 => Box::new(Dw::<T1, E> { w: r0.fail_on_skipped(), cli: e() }),
        1 => Box::new(Dw::<T2, E> { w: r0.fail_on_skipped_with(even_line as SkipPred), cli: e() }),
        2 => Box::new(Dw::<T3, E> { w: r0.repeat_skipped::<W>(), cli: e() }),
        3 => Box::new(Dw::<T3, E> { w: r0.repeat_failed::<W>(), cli: e() }),
        4 => Box::new(Dw::<T5, E> { w: r0.repeat_if::<W, _>(hooks_and_pf as EvFilter), cli: e() }),
        5 => Box::new(Dw::<T6, E> { w: r0.repeat_failed::<W>().fail_on_skipped(), cli: e() }),
        6 => Box::new(Dw::<T7, C2> { w: r0.repeat_skipped::<W>().tee::<W, _>(r1.repeat_failed::<W>()), cli: c2() }),
        7 => Box::new(Dw::<T8, C2> { w: r0.tee::<W, _>(r1), cli: c2() }),
        8 => Box::new(Dw::<T9, C2> { w: r0.fail_on_skipped().tee::<W, _>(r1.repeat_failed::<W>()), cli: c2() }),
        11 => Box::new(Dw::<T12, E> { w: r0.discard_arbitrary_writes(), cli: e() }),
        12 => Box::new(Dw::<T13, E> { w: r0.discard_stats_writes(), cli: e() }),
        13 => Box::new(Dw::<T14, C2> { w: r0.discard_arbitrary_writes().tee::<W, _>(r1), cli: c2() }),
        14 => Box::new(Dw::<T15, C2> { w: r0.tee::<W, _>(r1.repeat_skipped::<W>()).fail_on_skipped(), cli: c2() }),
        16 => Box::new(Dw::<T17, C2> { w: r0.tee::<W, _>(r1).repeat_failed::<W>(), cli: c2() }),
        17 => Box::new(Dw::<T18, C2> { w: r0.discard_stats_writes().tee::<W, _>(r1.fail_on_skipped_with(even_line as SkipPred)), cli: c2() }),
        18 => Box::new(Dw::<T5, E> { w: r0.repeat_if::<W, _>(all_events as EvFilter), cli: e() }),
        19 => Box::new(Dw::<T19, C2> { w: r0.repeat_if::<W, _>(run_level as EvFilter).tee::<W, _>(r1), cli: c2() }),
        _ => return None,
    })
}

/// Runs one zoo entry over `stream`, with `writes[i]` = arbitrary string written before event i.
pub fn check_entry(entry: usize, stream: &[Ev], writes: &[Option<String>], meta: &HashMap<usize, ScMeta>, leaf_stats: &[[usize; 6]], clone_at: Option<usize>, ext: bool) -> Vec<Violation> {
    let recs: Vec<Rec> = leaf_stats.iter().map(|s| Rec { stats: *s, ..Rec::default() }).collect();
    let (mut w, desc, name) = zoo(entry, &recs);
    if ext {
        if let Some(we) = zoo_ext(entry, &recs) {
            w = we;
        }
    }
    let mut interp = Interp::new(recs.len(), meta);
    let mut viol = vec![];
    for (i, e) in stream.iter().enumerate() {
        if let Some(Some(s)) = writes.get(i) {
            if w.write(s.clone()) {
                interp.write(&desc, s);
            }
        }
        if clone_at == Some(i) {
            w.swap_for_clone();
        }
        w.handle(e.clone());
        interp.event(&desc, decode(e), "");
    }
    for (li, rec) in recs.iter().enumerate() {
        let got: Vec<Item> = rec
            .log
            .borrow()
            .iter()
            .map(|r| match r {
                Rec1::Event(k) => Item::Event(k.clone()),
                Rec1::Write(s) => Item::Write(s.clone()),
            })
            .collect();
        let exp = &interp.leaves[li];
        if got != *exp {
            let pos = got.iter().zip(exp.iter()).position(|(a, b)| a != b).unwrap_or(got.len().min(exp.len()));
            let show = |x: Option<&Item>| match x {
                Some(Item::Event(k)) => format!("{:?} retries={:?} at={}", k.what, k.retries, k.at),
                Some(Item::Write(s)) => format!("write({s:?})"),
                None => "<nothing>".into(),
            };
            let clause = match &desc {
                Desc::FailOnSkipped(..) => "fail-on-skipped",
                Desc::Repeat(..) => "repeat",
                Desc::Tee(..) => "tee",
                Desc::Or(..) => "or",
                Desc::DiscardArbitrary(_) | Desc::DiscardStats(_) => "discard",
                Desc::Leaf(_) => "leaf",
            };
            viol.push(v(
                &format!("{clause}/leaf-sequence"),
                format!("{name}: recorder leaf #{li} received {} items, reference predicts {}; first difference at #{pos}: got {} expected {}", got.len(), exp.len(), show(got.get(pos)), show(exp.get(pos))),
            ));
        }
    }
    let got = w.stats();
    let exp = ref_stats(&desc, leaf_stats);
    if got != exp {
        viol.push(v("stats-algebra", format!("{name}: statistics {got:?}, reference (Tee=max, Or=sum, wrappers=inner, discard::Stats=0) {exp:?} over leaves {leaf_stats:?}")));
    }
    viol
}
