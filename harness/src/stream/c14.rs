//! C14: built-in reports, parsed back, state exactly the facts of the event stream. (see parse.rs)
