//! C14: built-in reports, parsed back, state exactly the facts of the event stream. (see parse.rs)

use cucumber::{
    Writer as _, cli,
    writer::{self, Coloring, Verbosity},
};
use futures::executor::block_on;

use super::{Ev, Sink};
use crate::lab::W;

pub struct Reports {
    pub basic: Result<String, String>,
    /// `writer::Basic` with `Coloring::Always` (terminal mode: step `Started` lines are printed
    /// and later erased with cursor movements); raw bytes, to be rendered by [`render_terminal`].
    pub basic_tty: Result<String, String>,
    pub libtest: Result<String, String>,
    pub json: Result<String, String>,
    pub junit: Result<String, String>,
}

#[derive(Clone, Copy, Debug)]
pub struct Opts {
    pub verbosity: u8,
    pub show_output: bool,
    pub report_time: bool,
    pub junit_verbose: bool,
}

fn guarded(f: impl FnOnce() -> String) -> Result<String, String> {
    std::panic::catch_unwind(std::panic::AssertUnwindSafe(f)).map_err(|p| {
        p.downcast_ref::<String>().cloned().or_else(|| p.downcast_ref::<&str>().map(|s| (*s).to_string())).unwrap_or_else(|| "reporter panicked".into())
    })
}

/// Feeds `stream` to the four built-in reporters, each behind `Normalize`.
pub fn produce(stream: &[Ev], o: &Opts) -> Reports {
    let s = |k: &Sink| String::from_utf8_lossy(&k.0.borrow()).into_owned();
    let verb = match o.verbosity {
        0 => Verbosity::Default,
        1 => Verbosity::ShowWorld,
        _ => Verbosity::ShowWorldAndDocString,
    };
    // `Basic::apply_cli` reads `verbose` as the number of `-v` flags: 0 keeps the constructor's
    // level, 1 = Default, 2 = ShowWorld, 3 = ShowWorldAndDocString. Passing the level itself (as was
    // done before round 13) silently lowered level 2 to ShowWorld, so doc strings were never shown.
    let cli_verbose = o.verbosity + 1;
    let basic = guarded(|| {
        let sink = Sink::default();
        let mut w = writer::Normalize::<W, _>::new(writer::Basic::raw(sink.clone(), Coloring::Never, verb));
        let cli = writer::basic::Cli { verbose: cli_verbose, color: Coloring::Never };
        for e in stream {
            block_on(w.handle_event(e.clone(), &cli));
        }
        s(&sink)
    });
    let basic_tty = guarded(|| {
        let sink = Sink::default();
        let mut w = writer::Normalize::<W, _>::new(writer::Basic::raw(sink.clone(), Coloring::Always, verb));
        let cli = writer::basic::Cli { verbose: cli_verbose, color: Coloring::Always };
        for e in stream {
            block_on(w.handle_event(e.clone(), &cli));
        }
        s(&sink)
    });
    let libtest = guarded(|| {
        let sink = Sink::default();
        let mut w = writer::Normalize::<W, _>::new(writer::Libtest::<W, _>::raw(sink.clone()));
        let cli = writer::libtest::Cli { format: None, show_output: o.show_output, report_time: o.report_time.then_some(writer::libtest::ReportTime::Plain), nightly: None };
        for e in stream {
            // Libtest `print!`s Log events to the process's stdout (captured by libtest's own
            // harness in real use): not fed here, stdout carries the worker protocol.
            if matches!(super::decode(e).what, super::What::Log(_)) {
                continue;
            }
            block_on(w.handle_event(e.clone(), &cli));
        }
        s(&sink)
    });
    let json = guarded(|| {
        let sink = Sink::default();
        let mut w = writer::Normalize::<W, _>::new(writer::Json::raw(sink.clone()));
        for e in stream {
            block_on(w.handle_event(e.clone(), &cli::Empty));
        }
        s(&sink)
    });
    let junit = guarded(|| {
        let sink = Sink::default();
        // Level: default, World, or (constructor only; `--junit-v` stops at the World) World and doc
        // strings. Half of the cases (chosen by an option JUnit ignores) set the level through the
        // CLI (`--junit-v 0|1`) over a constructor that says the opposite, the others through the
        // constructor with no CLI value.
        let level = match (o.junit_verbose, o.verbosity) {
            (false, _) => Verbosity::Default,
            (true, 2) if !o.report_time => Verbosity::ShowWorldAndDocString,
            (true, _) => Verbosity::ShowWorld,
        };
        let (ctor, cli) = if o.report_time {
            (if o.junit_verbose { Verbosity::Default } else { Verbosity::ShowWorldAndDocString }, writer::junit::Cli { verbose: Some(u8::from(o.junit_verbose)) })
        } else {
            (level, writer::junit::Cli { verbose: None })
        };
        let mut w = writer::Normalize::<W, _>::new(writer::JUnit::<W, _>::raw(sink.clone(), ctor));
        for e in stream {
            block_on(w.handle_event(e.clone(), &cli));
        }
        s(&sink)
    });
    Reports { basic, basic_tty, libtest, json, junit }
}

// ------------------------------------------------------------------------------------------
// facts of the stream

use std::collections::BTreeMap;

use cucumber::{
    event::{self, Cucumber, Hook, HookType, Scenario, Step, StepError},
    gherkin, parser,
};

use super::{
    info_string,
    parse::{J, Xml, parse_json, parse_xml},
};
use crate::engine::Violation;

fn v(sig: &str, msg: String) -> Violation {
    Violation::new(format!("C14/{sig}"), msg)
}

#[derive(Clone, Debug)]
pub struct Ctx {
    /// identity of the feature / rule instance (two features may share a title)
    pub fid: usize,
    pub rid: usize,
    pub fname: String,
    pub fkeyword: String,
    pub fpath: Option<String>,
    pub rule: Option<(usize, String, String)>, // line, keyword, name
    pub sline: usize,
    pub scol: usize,
    pub skeyword: String,
    pub sname: String,
    pub retries: Option<(usize, usize)>,
    pub bg_keyword: String,
}

#[derive(Clone, Debug)]
pub enum Fact {
    Step { c: Ctx, bg: bool, line: usize, col: usize, keyword: String, text: String, status: &'static str, msg: Option<String> },
    HookFailed { c: Ctx, before: bool, msg: String },
    HookPassed { c: Ctx, before: bool },
    Attempt { c: Ctx, status: &'static str, msgs: Vec<String> },
    ParserError { path: Option<String>, raw_path: Option<String>, line: usize, col: usize, display: String },
}

fn trim(p: &std::path::Path) -> Option<String> {
    p.to_str().map(|s| s.trim_start_matches('/').to_string())
}

/// Facts of a stream, in stream order. Attempt facts are emitted at the attempt's `Finished`.
pub fn facts(stream: &[Ev]) -> Vec<Fact> {
    let mut out = vec![];
    let mut open: BTreeMap<(usize, Option<(usize, usize)>), (bool, bool, Vec<String>)> = BTreeMap::new(); // (failed, skipped, msgs)
    for e in stream {
        match e {
            Err(parser::Error::ExampleExpansion(x)) => out.push(Fact::ParserError { path: x.path.as_deref().and_then(trim), raw_path: x.path.as_deref().and_then(|p| p.to_str()).map(str::to_string), line: x.pos.line, col: x.pos.col, display: e.as_ref().err().map(ToString::to_string).unwrap_or_default() }),
            Err(err) => out.push(Fact::ParserError { path: None, raw_path: None, line: 0, col: 0, display: err.to_string() }),
            Ok(ev) => {
                let Cucumber::Feature(f, fe) = &ev.value else { continue };
                let (r, s, re): (Option<&gherkin::Rule>, &event::Source<gherkin::Scenario>, &event::RetryableScenario<W>) = match fe {
                    event::Feature::Scenario(s, re) => (None, s, re),
                    event::Feature::Rule(r, event::Rule::Scenario(s, re)) => (Some(&**r), s, re),
                    _ => continue,
                };
                let c = Ctx {
                    fid: super::src_ptr(f),
                    rid: match fe {
                        event::Feature::Rule(r, _) => super::src_ptr(r),
                        _ => 0,
                    },
                    fname: f.name.clone(),
                    fkeyword: f.keyword.clone(),
                    fpath: f.path.as_deref().and_then(trim),
                    rule: r.map(|r| (r.position.line, r.keyword.clone(), r.name.clone())),
                    sline: s.position.line,
                    scol: s.position.col,
                    skeyword: s.keyword.clone(),
                    sname: s.name.clone(),
                    retries: re.retries.map(|r| (r.current, r.left)),
                    bg_keyword: f.background.as_ref().map_or("Background".to_string(), |b| b.keyword.clone()),
                };
                let key = (super::src_ptr(s), c.retries);
                let mut step = |bg: bool, st: &gherkin::Step, se: &Step<W>, out: &mut Vec<Fact>, open: &mut BTreeMap<_, (bool, bool, Vec<String>)>| {
                    let (status, msg): (&'static str, Option<String>) = match se {
                        Step::Started => return,
                        Step::Passed(..) => ("passed", None),
                        Step::Skipped => ("skipped", None),
                        Step::Failed(_, _, _, StepError::NotFound) => ("notfound", None),
                        Step::Failed(_, _, _, StepError::AmbiguousMatch(_)) => ("ambiguous", None),
                        Step::Failed(_, _, _, StepError::Panic(i)) => ("failed", Some(info_string(i))),
                    };
                    let o = open.entry(key).or_default();
                    match status {
                        "skipped" => o.1 = true,
                        "passed" => {}
                        _ => {
                            o.0 = true;
                            o.2.push(msg.clone().unwrap_or_else(|| status.to_string()));
                        }
                    }
                    out.push(Fact::Step { c: c.clone(), bg, line: st.position.line, col: st.position.col, keyword: st.keyword.clone(), text: st.value.clone(), status, msg });
                };
                match &re.event {
                    Scenario::Started => {
                        open.insert(key, (false, false, vec![]));
                    }
                    Scenario::Background(st, se) => step(true, st, se, &mut out, &mut open),
                    Scenario::Step(st, se) => step(false, st, se, &mut out, &mut open),
                    Scenario::Hook(t, h) => {
                        let before = matches!(t, HookType::Before);
                        match h {
                            Hook::Started => {}
                            Hook::Passed => out.push(Fact::HookPassed { c, before }),
                            Hook::Failed(_, i) => {
                                let o = open.entry(key).or_default();
                                o.0 = true;
                                o.2.push(info_string(i));
                                out.push(Fact::HookFailed { c, before, msg: info_string(i) });
                            }
                        }
                    }
                    Scenario::Log(_) => {}
                    Scenario::Finished => {
                        let (failed, skipped, msgs) = open.remove(&key).unwrap_or_default();
                        out.push(Fact::Attempt { c, status: if failed { "failure" } else if skipped { "skipped" } else { "success" }, msgs });
                    }
                }
            }
        }
    }
    out
}

/// Extracts generated failure messages (`<uid>:<where>-panic<decoration>`) from free text.
pub fn extract_msgs(text: &str) -> Vec<String> {
    thread_local! {
        static RE: regex::Regex = regex::Regex::new(r"f\d+(?:r\d+)?s\d+#(?:-|\d+):[a-z0-9-]+-panic[^\n]*").unwrap();
    }
    RE.with(|re| re.find_iter(text).map(|m| m.as_str().trim_end().to_string()).collect())
}

fn retry_suffix(r: Option<(usize, usize)>, sep: &str) -> String {
    r.filter(|r| r.0 > 0).map_or(String::new(), |r| format!(" | Retry attempt{sep}{}/{}", r.0, r.0 + r.1))
}

fn multiset_diff(kind: &str, expected: &[String], got: &[String]) -> Option<String> {
    let mut e: BTreeMap<&str, i64> = BTreeMap::new();
    for x in expected {
        *e.entry(x).or_default() += 1;
    }
    for x in got {
        *e.entry(x).or_default() -= 1;
    }
    let missing: Vec<&str> = e.iter().filter(|(_, n)| **n > 0).map(|(k, _)| *k).take(3).collect();
    let extra: Vec<&str> = e.iter().filter(|(_, n)| **n < 0).map(|(k, _)| *k).take(3).collect();
    if missing.is_empty() && extra.is_empty() {
        None
    } else {
        Some(format!("{kind}: facts of the run missing from the report: {missing:?}; facts in the report that did not happen: {extra:?}"))
    }
}

// ------------------------------------------------------------------------------------------
// libtest

pub struct Shapes {
    pub pathless: bool,
    pub cdata_end: bool,
    pub skipped_attempt_with_steps: bool,
}

pub fn check_libtest(text: &str, facts: &[Fact], pf_steps_plus_errors: Option<usize>) -> Vec<Violation> {
    let mut viol = vec![];
    let mut lines: Vec<J> = vec![];
    for (i, l) in text.lines().enumerate() {
        match parse_json(l) {
            Ok(j) => lines.push(j),
            Err(e) => {
                viol.push(v("libtest/malformed-json-line", format!("line {i}: {e}: {l:?}")));
                return viol;
            }
        }
    }
    // ---- expected
    let name_of = |c: &Ctx, last: String, num: &str| {
        let mut parts = vec![format!("{}: {} {}", c.fkeyword, c.fname, c.fpath.as_ref().map_or(num.to_string(), |p| p.escape_default().to_string()))];
        if let Some((l, k, n)) = &c.rule {
            parts.push(format!("{l}: {k}: {n}"));
        }
        parts.push(format!("{}: {}: {}{}", c.sline, c.skeyword, c.sname, retry_suffix(c.retries, " ")));
        parts.push(last);
        parts.join("::")
    };
    let mut exp: Vec<String> = vec![];
    let (mut n_ok, mut n_ign, mut n_failed_final) = (0usize, 0usize, 0usize);
    for f in facts {
        match f {
            Fact::Step { c, bg, line, keyword, text, status, msg, .. } => {
                let last = format!("{line}: {}{keyword}{text}", if *bg { format!("{} ", c.bg_keyword) } else { " ".to_string() });
                let name = name_of(c, last, "#");
                let ev = match *status {
                    "passed" => "ok",
                    "skipped" => "ignored",
                    _ => "failed",
                };
                match ev {
                    "ok" => n_ok += 1,
                    "ignored" => n_ign += 1,
                    _ => {
                        if *status == "notfound" || c.retries.is_none_or(|r| r.1 == 0) {
                            n_failed_final += 1;
                        }
                    }
                }
                exp.push(format!("started|{name}"));
                exp.push(format!("{ev}|{name}|{}|{}", status_detail(status), msg.clone().unwrap_or_default()));
            }
            Fact::HookFailed { c, before, msg } => {
                let name = name_of(c, format!("{} hook", if *before { "Before" } else { "After" }), "#");
                n_failed_final += 1; // hook errors always count (reading R4 / D2 aside)
                exp.push(format!("started|{name}"));
                exp.push(format!("failed|{name}|failed|{msg}"));
            }
            Fact::ParserError { raw_path, .. } => {
                // (libtest prints the parser error's path as given, not trimmed)
                let name = format!("Feature: Parsing {}", raw_path.as_ref().map_or("#".to_string(), |p| p.escape_default().to_string()));
                n_failed_final += 1;
                exp.push(format!("started|{name}"));
                exp.push(format!("failed|{name}|parser|"));
            }
            _ => {}
        }
    }
    // ---- parsed
    let mut got: Vec<String> = vec![];
    let mut pending: BTreeMap<String, i64> = BTreeMap::new();
    let mut started_count: BTreeMap<String, usize> = BTreeMap::new();
    let mut suite_started: Vec<f64> = vec![];
    let mut suite_result: Vec<&J> = vec![];
    let canon = |name: &str| -> String {
        // path-less features carry a running number: replaced by `#` for the fact comparison
        let first = name.split("::").next().unwrap_or("");
        let rest = &name[first.len()..];
        match first.rsplit_once(' ') {
            Some((head, tail)) if !tail.is_empty() && tail.bytes().all(|b| b.is_ascii_digit()) => format!("{head} #{rest}"),
            _ => name.to_string(),
        }
    };
    for j in &lines {
        match (j.get("type").and_then(J::str), j.get("event").and_then(J::str)) {
            (Some("suite"), Some("started")) => suite_started.push(j.get("test_count").and_then(J::num).unwrap_or(-1.0)),
            (Some("suite"), Some("ok" | "failed")) => suite_result.push(j),
            (Some("test"), Some(ev)) => {
                let name = j.get("name").and_then(J::str).unwrap_or("");
                let stdout = j.get("stdout").and_then(J::str).unwrap_or("");
                match ev {
                    "started" => {
                        *started_count.entry(name.to_string()).or_default() += 1;
                        *pending.entry(name.to_string()).or_default() += 1;
                        got.push(format!("started|{}", canon(name)));
                    }
                    "ok" | "ignored" | "failed" => {
                        *pending.entry(name.to_string()).or_default() -= 1;
                        let detail = if ev == "failed" {
                            if name.starts_with("Feature: Parsing ") {
                                "parser"
                            } else if stdout.contains("Step match is ambiguous") {
                                "ambiguous"
                            } else if stdout.contains("Step doesn't match any function") {
                                "notfound"
                            } else {
                                "failed"
                            }
                        } else if ev == "ok" {
                            "passed"
                        } else {
                            "skipped"
                        };
                        let msg = extract_msgs(stdout).into_iter().next().unwrap_or_default();
                        got.push(format!("{ev}|{}|{detail}|{msg}", canon(name)));
                    }
                    other => viol.push(v("libtest/unknown-event", format!("unknown test event {other:?}"))),
                }
            }
            _ => viol.push(v("libtest/unknown-line", format!("unrecognised line {j:?}"))),
        }
    }
    if let Some(d) = multiset_diff("libtest", &exp, &got) {
        viol.push(v("libtest/facts", d));
    }
    // started/result pairing by exact name
    let unpaired: Vec<&String> = pending.iter().filter(|(_, n)| **n != 0).map(|(k, _)| k).take(3).collect();
    if !unpaired.is_empty() {
        let pathless = facts.iter().any(|f| matches!(f, Fact::Step { c, .. } | Fact::HookFailed { c, .. } if c.fpath.is_none()));
        viol.push(v(if pathless { "libtest/started-result-pairing/pathless-feature" } else { "libtest/started-result-pairing" }, format!("`started` lines without exactly one result line of the same name (or vice versa): {unpaired:?}")));
    }
    // "exactly one result line with the same name": a name announced twice cannot be paired at all
    let dup: Vec<(&String, &usize)> = started_count.iter().filter(|(_, n)| **n > 1).take(3).collect();
    if !dup.is_empty() {
        viol.push(v("libtest/duplicate-test-name", format!("test names announced by more than one `started` line: {dup:?}")));
    }
    // suite lines
    if suite_started.len() != 1 || suite_result.len() != 1 {
        viol.push(v("libtest/suite-lines", format!("{} suite started lines, {} suite result lines", suite_started.len(), suite_result.len())));
    } else {
        if let Some(n) = pf_steps_plus_errors {
            if suite_started[0] != n as f64 {
                viol.push(v("libtest/test-count", format!("suite started test_count={} but ParsingFinished announced {n} steps + parser errors", suite_started[0])));
            }
        }
        let r = suite_result[0];
        let num = |k: &str| r.get(k).and_then(J::num).unwrap_or(-1.0) as i64;
        let verdict_failed = r.get("event").and_then(J::str) == Some("failed");
        if num("passed") != n_ok as i64 || num("ignored") != n_ign as i64 {
            viol.push(v("libtest/suite-totals", format!("suite passed={} ignored={} but entries show ok={n_ok} ignored={n_ign}", num("passed"), num("ignored"))));
        }
        if num("failed") != n_failed_final as i64 {
            let nonfinal_hook = facts.iter().any(|f| matches!(f, Fact::HookFailed { c, .. } if c.retries.is_some_and(|r| r.1 > 0)));
            let _ = nonfinal_hook;
            viol.push(v("libtest/suite-totals", format!("suite failed={} but entries show {n_failed_final} final failures (incl. hook failures and parser errors)", num("failed"))));
        }
        if verdict_failed != (num("failed") > 0) {
            viol.push(v("libtest/suite-verdict", format!("suite verdict failed={verdict_failed} with failed={}", num("failed"))));
        }
    }
    viol
}

fn status_detail(s: &str) -> &'static str {
    match s {
        "passed" => "passed",
        "skipped" => "skipped",
        "ambiguous" => "ambiguous",
        "notfound" => "notfound",
        _ => "failed",
    }
}

// ------------------------------------------------------------------------------------------
// Cucumber JSON

pub fn check_json(text: &str, facts: &[Fact]) -> Vec<Violation> {
    let mut viol = vec![];
    let doc = match parse_json(text) {
        Ok(d) => d,
        Err(e) => {
            viol.push(v("json/malformed", format!("{e}; document starts {:?}", text.chars().take(120).collect::<String>())));
            return viol;
        }
    };
    let opt = |o: &Option<String>| o.clone().unwrap_or_else(|| "<none>".into());
    let mut exp: Vec<String> = vec![];
    for f in facts {
        match f {
            Fact::Step { c, bg, line, keyword, text, status, msg, .. } => {
                let el = format!("{}{}", c.rule.as_ref().map_or(String::new(), |r| format!("{} ", r.2)), c.sname);
                let st = match *status {
                    "notfound" => "undefined",
                    s => s,
                };
                exp.push(format!("step|{}|{}|{}|{el}|{}|{keyword}|{line}|{text}|{st}|{}", opt(&c.fpath), c.fname, if *bg { "background" } else { "scenario" }, c.sline, msg.clone().unwrap_or_default()));
            }
            Fact::HookFailed { c, before, msg } => {
                let el = format!("{}{}", c.rule.as_ref().map_or(String::new(), |r| format!("{} ", r.2)), c.sname);
                exp.push(format!("hook|{}|{}|{el}|{}|{}|failed|{msg}", opt(&c.fpath), c.fname, c.sline, if *before { "before" } else { "after" }));
            }
            Fact::HookPassed { c, before } => {
                let el = format!("{}{}", c.rule.as_ref().map_or(String::new(), |r| format!("{} ", r.2)), c.sname);
                exp.push(format!("hook|{}|{}|{el}|{}|{}|passed|", opt(&c.fpath), c.fname, c.sline, if *before { "before" } else { "after" }));
            }
            Fact::ParserError { path, display, .. } => {
                // the JSON report carries the inner error's message (without the `parser::Error` prefix)
                let inner = display.strip_prefix("Failed to expand examples: ").or_else(|| display.strip_prefix("Failed to parse feature: ")).unwrap_or(display);
                exp.push(format!("perr|{}|{inner}", opt(path)));
            }
            Fact::Attempt { .. } => {}
        }
    }
    let mut got: Vec<String> = vec![];
    let mut seen_features: BTreeMap<(String, String), usize> = BTreeMap::new();
    for feat in doc.arr() {
        let uri = feat.get("uri").and_then(J::str).map_or("<none>".to_string(), str::to_string);
        let fname = feat.get("name").and_then(J::str).unwrap_or("").to_string();
        let is_err = feat.get("keyword").and_then(J::str) == Some("");
        if !is_err {
            *seen_features.entry((uri.clone(), fname.clone())).or_default() += 1;
        }
        let mut seen_el: BTreeMap<(String, String, i64), usize> = BTreeMap::new();
        for el in feat.get("elements").map_or(&[][..], J::arr) {
            let ty = el.get("type").and_then(J::str).unwrap_or("").to_string();
            let elname = el.get("name").and_then(J::str).unwrap_or("").to_string();
            let elline = el.get("line").and_then(J::num).unwrap_or(-1.0) as i64;
            *seen_el.entry((ty.clone(), elname.clone(), elline)).or_default() += 1;
            for st in el.get("steps").map_or(&[][..], J::arr) {
                let res = st.get("result");
                let status = res.and_then(|r| r.get("status")).and_then(J::str).unwrap_or("?");
                let em = res.and_then(|r| r.get("error_message")).and_then(J::str).unwrap_or("");
                if is_err {
                    got.push(format!("perr|{uri}|{em}"));
                } else {
                    got.push(format!(
                        "step|{uri}|{fname}|{ty}|{elname}|{elline}|{}|{}|{}|{status}|{}",
                        st.get("keyword").and_then(J::str).unwrap_or("?"),
                        st.get("line").and_then(J::num).unwrap_or(-1.0) as i64,
                        st.get("name").and_then(J::str).unwrap_or("?"),
                        extract_msgs(em).into_iter().next().unwrap_or_default()
                    ));
                }
            }
            for (k, arr) in [("before", el.get("before")), ("after", el.get("after"))] {
                for h in arr.map_or(&[][..], J::arr) {
                    let res = h.get("result");
                    let status = res.and_then(|r| r.get("status")).and_then(J::str).unwrap_or("?");
                    let em = res.and_then(|r| r.get("error_message")).and_then(J::str).unwrap_or("");
                    got.push(format!("hook|{uri}|{fname}|{elname}|{elline}|{k}|{status}|{}", extract_msgs(em).into_iter().next().unwrap_or_default()));
                }
            }
        }
        if let Some((k, n)) = seen_el.iter().find(|(_, n)| **n > 1) {
            viol.push(v("json/element-split", format!("element {k:?} appears {n} times inside feature `{fname}`")));
        }
    }
    if let Some(((uri, name), n)) = seen_features.iter().find(|(_, n)| **n > 1) {
        viol.push(v(if uri == "<none>" { "json/feature-split/pathless-feature" } else { "json/feature-split" }, format!("feature `{name}` (uri {uri}) appears as {n} separate feature objects")));
    }
    if let Some(d) = multiset_diff("json", &exp, &got) {
        viol.push(v("json/facts", d));
    }
    viol
}

// ------------------------------------------------------------------------------------------
// terminal (writer::Basic) line grammar

#[derive(Default)]
struct BasicCtx {
    f: String,
    r: String,
    s: String,
    retry: String,
}

/// Parses `writer::Basic` output (Coloring::Never) into canonical fact strings.
pub fn parse_basic(text: &str, with_headers: bool) -> Vec<String> {
    thread_local! {
        static STEP: regex::Regex = regex::Regex::new(r"^\s*(✔|\?|✘)(>| ) (Given |When |Then )(.*)$").unwrap();
        static HOOK: regex::Regex = regex::Regex::new(r"^\s*✘  Scenario's (Before|After) hook failed (.*)$").unwrap();
        static SCEN: regex::Regex = regex::Regex::new(r"^\s*Scenario: (.*?)( \| Retry attempt: (\d+)/(\d+))?$").unwrap();
    }
    let mut out: Vec<String> = vec![];
    let mut c = BasicCtx::default();
    // (index into out of the last fact, its detail text)
    let mut last: Option<usize> = None;
    let mut detail = String::new();
    let flush = |out: &mut Vec<String>, last: &mut Option<usize>, detail: &mut String| {
        if let Some(i) = last.take() {
            let kind = if detail.contains("Step match is ambiguous") {
                "ambiguous"
            } else if detail.contains("Step doesn't match any function") {
                "notfound"
            } else {
                ""
            };
            let msg = extract_msgs(detail).into_iter().next().unwrap_or_default();
            out[i] = out[i].replace("{KIND}", kind).replace("{MSG}", &msg);
        }
        detail.clear();
    };
    for l in text.lines() {
        let t = l.trim_start();
        if let Some(n) = t.strip_prefix("Feature: ").filter(|_| !l.starts_with(' ')) {
            flush(&mut out, &mut last, &mut detail);
            c = BasicCtx { f: n.to_string(), ..BasicCtx::default() };
            if with_headers {
                out.push(format!("F|{n}"));
            }
        } else if let Some(n) = t.strip_prefix("Rule: ") {
            flush(&mut out, &mut last, &mut detail);
            c.r = n.to_string();
            if with_headers {
                out.push(format!("R|{}|{n}", c.f));
            }
        } else if let Some(m) = SCEN.with(|re| re.captures(l).map(|m| (m[1].to_string(), m.get(3).map(|x| x.as_str().to_string()), m.get(4).map(|x| x.as_str().to_string())))) {
            flush(&mut out, &mut last, &mut detail);
            c.s = m.0;
            c.retry = match (m.1, m.2) {
                (Some(a), Some(b)) => format!("{a}/{b}"),
                _ => String::new(),
            };
            // a scenario directly under the feature resets the rule context only if it is less indented than rule scenarios
            let indent = l.len() - t.len();
            if indent <= 2 {
                c.r.clear();
            }
            out.push(format!("S|{}|{}|{}|{}", c.f, c.r, c.s, c.retry));
        } else if let Some((mark, bg, kw, text)) = STEP.with(|re| re.captures(l).map(|m| (m[1].to_string(), &m[2] == ">", m[3].to_string(), m[4].to_string()))) {
            flush(&mut out, &mut last, &mut detail);
            let status = match mark.as_str() {
                "✔" => "passed",
                "?" => "skipped",
                _ => "failed{KIND}",
            };
            out.push(format!("step|{}|{}|{}|{}|{bg}|{kw}{text}|{status}|{{MSG}}", c.f, c.r, c.s, c.retry));
            last = Some(out.len() - 1);
        } else if let Some(kind) = HOOK.with(|re| re.captures(l).map(|m| m[1].to_string())) {
            flush(&mut out, &mut last, &mut detail);
            out.push(format!("hook|{}|{}|{}|{}|{kind}|{{MSG}}", c.f, c.r, c.s, c.retry));
            last = Some(out.len() - 1);
        } else if let Some(m) = t.strip_prefix("Failed to parse: ") {
            flush(&mut out, &mut last, &mut detail);
            out.push(format!("perr|{m}"));
        } else {
            detail.push_str(l);
            detail.push('\n');
        }
    }
    flush(&mut out, &mut last, &mut detail);
    out.iter().map(|s| s.replace("failed{KIND}", "failed").replace("{MSG}", "")).collect()
}

pub fn expected_basic(facts: &[Fact], with_headers: bool) -> Vec<String> {
    let mut out = vec![];
    let mut seen_f: Vec<usize> = vec![];
    let mut seen_r: Vec<(usize, usize)> = vec![];
    let mut seen_a: Vec<(String, String, String, usize, Option<(usize, usize)>)> = vec![];
    let mut head = |c: &Ctx, out: &mut Vec<String>| {
        let r = c.rule.as_ref().map_or(String::new(), |r| r.2.clone());
        if with_headers && !seen_f.contains(&c.fid) {
            seen_f.push(c.fid);
            out.push(format!("F|{}", c.fname));
        }
        if with_headers && !r.is_empty() && !seen_r.contains(&(c.fid, c.rid)) {
            seen_r.push((c.fid, c.rid));
            out.push(format!("R|{}|{r}", c.fname));
        }
        let retry = c.retries.filter(|r| r.0 > 0).map_or(String::new(), |r| format!("{}/{}", r.0, r.0 + r.1));
        let a = (format!("{}#{}", c.fname, c.fid), r.clone(), c.sname.clone(), c.sline, c.retries);
        if !seen_a.contains(&a) {
            seen_a.push(a);
            out.push(format!("S|{}|{r}|{}|{retry}", c.fname, c.sname));
        }
        (r, retry)
    };
    for f in facts {
        match f {
            Fact::Step { c, bg, keyword, text, status, msg, .. } => {
                let (r, retry) = head(c, &mut out);
                let st = match *status {
                    "passed" => "passed".to_string(),
                    "skipped" => "skipped".to_string(),
                    "ambiguous" => "failedambiguous".to_string(),
                    "notfound" => "failednotfound".to_string(),
                    _ => "failed".to_string(),
                };
                out.push(format!("step|{}|{r}|{}|{retry}|{bg}|{keyword}{text}|{st}|{}", c.fname, c.sname, msg.clone().unwrap_or_default()));
            }
            Fact::HookFailed { c, before, msg } => {
                let (r, retry) = head(c, &mut out);
                out.push(format!("hook|{}|{r}|{}|{retry}|{}|{msg}", c.fname, c.sname, if *before { "Before" } else { "After" }));
            }
            Fact::HookPassed { c, .. } | Fact::Attempt { c, .. } => {
                head(c, &mut out);
            }
            Fact::ParserError { display, .. } => out.push(format!("perr|{display}")),
        }
    }
    out
}

/// What a terminal shows after receiving `raw`: interprets the control sequences `writer::Basic`
/// emits in terminal mode (CR, LF, `ESC[nA`, `ESC[nB`, `ESC[2K`) and drops colour (SGR) sequences.
/// No line wrapping: valid when the writer saw no terminal width (stdout not a terminal).
pub fn render_terminal(raw: &str) -> String {
    let mut lines: Vec<Vec<char>> = vec![vec![]];
    let (mut row, mut col) = (0usize, 0usize);
    let cs: Vec<char> = raw.chars().collect();
    let mut i = 0;
    while i < cs.len() {
        let c = cs[i];
        i += 1;
        match c {
            '\n' => {
                row += 1;
                col = 0;
                while lines.len() <= row {
                    lines.push(vec![]);
                }
            }
            '\r' => col = 0,
            '\x1b' if cs.get(i) == Some(&'[') => {
                let mut j = i + 1;
                while j < cs.len() && !cs[j].is_ascii_alphabetic() {
                    j += 1;
                }
                let arg: String = cs[i + 1..j.min(cs.len())].iter().collect();
                let n = arg.parse::<usize>().unwrap_or(1);
                match cs.get(j) {
                    Some('A') => row = row.saturating_sub(n),
                    Some('B') => {
                        row += n;
                        while lines.len() <= row {
                            lines.push(vec![]);
                        }
                    }
                    Some('K') => {
                        if arg == "2" {
                            lines[row].clear();
                        } else {
                            lines[row].truncate(col);
                        }
                    }
                    _ => {} // colours and anything else: no effect on the text
                }
                i = j + 1;
            }
            c => {
                let l = &mut lines[row];
                while l.len() < col {
                    l.push(' ');
                }
                if col < l.len() {
                    l[col] = c;
                } else {
                    l.push(c);
                }
                col += 1;
            }
        }
    }
    let mut out = String::new();
    for l in &lines {
        out.extend(l.iter());
        out.push('\n');
    }
    out
}

pub fn check_basic_tty(raw: &str, facts: &[Fact]) -> Vec<Violation> {
    let screen = render_terminal(raw);
    let got = parse_basic(&screen, true);
    let exp = expected_basic(facts, true);
    if std::env::var_os("VERIF_DUMP").is_some() && got != exp {
        eprintln!("--- raw\n{}\n--- rendered\n{screen}\n---", raw.escape_debug().to_string().replace("\\n", "\\n\n"));
    }
    let mut viol: Vec<Violation> = multiset_diff("terminal (colours on, rendered)", &exp, &got).map(|d| vec![v("terminal-tty/facts", d)]).unwrap_or_default();
    // "Nothing that did not happen appears": in terminal mode a step in progress is shown by a line
    // without a status mark, which its result erases and replaces. Every step of a complete stream
    // has its result, so no such line may be left on the screen.
    if viol.is_empty() {
        if let Some(stale) = screen.lines().find(|l| {
            let t = l.trim_start();
            l.len() > t.len() && ["Given ", "When ", "Then ", "And ", "But "].iter().any(|k| t.starts_with(k))
        }) {
            viol.push(v("terminal-tty/stale-step-line", format!("the rendered screen still shows a step as being in progress (a step line without a status mark): {stale:?}")));
        }
    }
    viol
}

pub fn check_basic(text: &str, facts: &[Fact]) -> Vec<Violation> {
    let got = parse_basic(text, true);
    let exp = expected_basic(facts, true);
    multiset_diff("terminal", &exp, &got).map(|d| vec![v("terminal/facts", d)]).unwrap_or_default()
}

// ------------------------------------------------------------------------------------------
// JUnit XML

pub fn check_junit(text: &str, facts: &[Fact]) -> Vec<Violation> {
    let mut viol = vec![];
    let root: Xml = match parse_xml(text) {
        Ok(r) => r,
        Err(e) => {
            let cdata = facts.iter().any(|f| match f {
                Fact::Step { c, text, msg, .. } => c.sname.contains("]]>") || text.contains("]]>") || msg.as_deref().is_some_and(|m| m.contains("]]>")),
                Fact::HookFailed { c, msg, .. } => c.sname.contains("]]>") || msg.contains("]]>"),
                Fact::Attempt { c, .. } | Fact::HookPassed { c, .. } => c.sname.contains("]]>"),
                Fact::ParserError { .. } => false,
            });
            viol.push(v(if cdata { "junit/malformed/cdata-terminator" } else { "junit/malformed" }, format!("{e}")));
            return viol;
        }
    };
    if root.name != "testsuites" {
        viol.push(v("junit/root", format!("root element is `{}`", root.name)));
        return viol;
    }
    // expected
    let mut exp: Vec<String> = vec![];
    let mut exp_steps: Vec<String> = vec![];
    for f in facts {
        match f {
            Fact::Attempt { c, status, .. } => {
                let suite = format!("Feature: {}{}", c.fname, c.fpath.as_ref().map_or(String::new(), |p| format!(": {p}")));
                let name = format!("{}Scenario: {}: {}{}:{}", c.rule.as_ref().map_or(String::new(), |r| format!("Rule: {}: ", r.2)), c.sname, c.fpath.as_ref().map_or(String::new(), |p| format!("{p}:")), c.sline, c.scol);
                exp.push(format!("case|{suite}|{name}|{status}"));
            }
            Fact::ParserError { path, line, col, .. } => {
                exp.push(format!("case|Errors|Feature: {}{line}:{col}|failure", path.as_ref().map_or(String::new(), |p| format!("{p}:"))));
            }
            _ => {}
        }
    }
    // step-level facts embedded as terminal text; attempts reported as `skipped` carry none (D7 if they had steps)
    let attempt_status: BTreeMap<(String, String, usize, Option<(usize, usize)>), &str> = facts
        .iter()
        .filter_map(|f| if let Fact::Attempt { c, status, .. } = f { Some(((format!("{}#{}", c.fname, c.fid), c.sname.clone(), c.sline, c.retries), *status)) } else { None })
        .collect();
    let mut dropped_by_skipped = 0usize;
    for s in expected_basic(facts, false) {
        exp_steps.push(s);
    }
    let mut got: Vec<String> = vec![];
    let mut got_steps: Vec<String> = vec![];
    for suite in root.children.iter().filter(|c| c.name == "testsuite") {
        let sname = suite.attr("name").unwrap_or("").to_string();
        let cases: Vec<&Xml> = suite.children.iter().filter(|c| c.name == "testcase").collect();
        let nfail = cases.iter().filter(|c| c.child("failure").is_some()).count();
        let nerr = cases.iter().filter(|c| c.child("error").is_some()).count();
        let a = |k: &str| suite.attr(k).and_then(|x| x.parse::<usize>().ok());
        if a("tests") != Some(cases.len()) || a("failures") != Some(nfail) || a("errors") != Some(nerr) {
            viol.push(v("junit/suite-attributes", format!("suite `{sname}`: tests={:?} failures={:?} errors={:?} but it has {} testcases, {nfail} failures, {nerr} errors", suite.attr("tests"), suite.attr("failures"), suite.attr("errors"), cases.len())));
        }
        let fname = sname.strip_prefix("Feature: ").unwrap_or(&sname);
        for case in cases {
            let status = if case.child("failure").is_some() || case.child("error").is_some() {
                "failure"
            } else if case.child("skipped").is_some() {
                "skipped"
            } else {
                "success"
            };
            got.push(format!("case|{sname}|{}|{status}", case.attr("name").unwrap_or("")));
            let body = case.child("failure").map(|f| f.text.as_str()).or_else(|| case.child("system-out").map(|s| s.text.as_str())).unwrap_or("");
            // the embedded text starts at the Scenario line: give it its feature / rule context
            let _ = fname;
            for s in parse_basic(body, false) {
                got_steps.push(s);
            }
        }
    }
    if let Some(d) = multiset_diff("junit testcases", &exp, &got) {
        viol.push(v("junit/testcases", d));
    }
    // Embedded step facts: compare without feature/rule context (the embedded text has only the Scenario line).
    let strip = |s: &String| -> String {
        let p: Vec<&str> = s.splitn(4, '|').collect();
        if p.len() == 4 && (p[0] == "step" || p[0] == "hook" || p[0] == "S") { format!("{}|{}", p[0], p[3]) } else { s.clone() }
    };
    let exp_s: Vec<String> = exp_steps.iter().filter(|s| !s.starts_with("perr|")).map(strip).collect();
    let got_s: Vec<String> = got_steps.iter().map(strip).collect();
    if let Some(d) = multiset_diff("junit embedded steps", &exp_s, &got_s) {
        // classify: only steps of attempts reported as `skipped` missing?
        let mut e: BTreeMap<&str, i64> = BTreeMap::new();
        for x in &exp_s {
            *e.entry(x).or_default() += 1;
        }
        for x in &got_s {
            *e.entry(x).or_default() -= 1;
        }
        let extra = e.values().any(|n| *n < 0);
        let skipped_names: Vec<String> = attempt_status.iter().filter(|(_, s)| **s == "skipped").map(|(k, _)| k.1.clone()).collect();
        let only_skipped = !extra && e.iter().filter(|(_, n)| **n > 0).all(|(k, _)| skipped_names.iter().any(|n| k.contains(&format!("|{n}|"))));
        dropped_by_skipped += usize::from(only_skipped);
        viol.push(v(if only_skipped { "junit/steps/skipped-testcase-drops-output" } else { "junit/steps" }, d));
    }
    let _ = dropped_by_skipped;
    viol
}


/// All four reporters over one stream.
pub fn check_all(stream: &[Ev], o: &Opts) -> Vec<Violation> {
    let facts = facts(stream);
    let pf = stream.iter().find_map(|e| match e {
        Ok(ev) => match &ev.value {
            Cucumber::ParsingFinished { steps, parser_errors, .. } => Some(steps + parser_errors),
            _ => None,
        },
        Err(_) => None,
    });
    let r = produce(stream, o);
    let mut viol = vec![];
    match &r.basic {
        Ok(t) => viol.extend(check_basic(t, &facts)),
        Err(p) => viol.push(v("terminal/panic", p.clone())),
    }
    // terminal mode counts lines by the terminal width if stdout is a terminal: only rendered
    // when it is not (always the case inside the worker processes)
    if !std::io::IsTerminal::is_terminal(&std::io::stdout()) {
        match &r.basic_tty {
            Ok(t) => viol.extend(check_basic_tty(t, &facts)),
            Err(p) => viol.push(v("terminal-tty/panic", p.clone())),
        }
    }
    match &r.libtest {
        Ok(t) => viol.extend(check_libtest(t, &facts, pf)),
        Err(p) => viol.push(v("libtest/panic", p.clone())),
    }
    match &r.json {
        Ok(t) => viol.extend(check_json(t, &facts)),
        Err(p) => viol.push(v("json/panic", p.clone())),
    }
    match &r.junit {
        Ok(t) => viol.extend(check_junit(t, &facts)),
        Err(p) => viol.push(v("junit/panic", p.clone())),
    }
    viol
}

// ------------------------------------------------------------------------------------------
// the default terminal reporter `Summarize<Normalize<Basic>>`: its `[Summary]` totals must agree
// with the individual entries of the report (= the facts of the stream)

/// Returns `(violations, skipped)`; `skipped` is true when the stream has one of the shapes for
/// which Summarize's scenario counters are a recorded known finding of C12 (D2, D5a, D5b) or are
/// unconstrained (aborted retry chain, reading R2): the totals are then not compared here.
pub fn check_terminal_summary(stream: &[Ev], own_steps_of: &dyn Fn(usize) -> usize) -> (Vec<Violation>, bool) {
    use super::c12::{ParsedSummary, parse_summary, recount};
    let keys: Vec<super::Key> = stream.iter().map(super::decode).collect();
    let c = recount(&keys, own_steps_of);
    if c.has_nonfinal_hook_failure || c.has_retried_without_own_steps || c.has_hook_failure_after_retry || c.sc_aborted > 0 {
        return (vec![], true);
    }
    let text = match guarded(|| {
        let sink = Sink::default();
        let mut w = writer::Summarize::new(writer::Basic::new(sink.clone(), Coloring::Never, Verbosity::Default));
        let cli = writer::basic::Cli { verbose: 0, color: Coloring::Never };
        for e in stream {
            block_on(w.handle_event(e.clone(), &cli));
        }
        String::from_utf8_lossy(&sink.0.borrow()).into_owned()
    }) {
        Ok(t) => t,
        Err(p) => return (vec![v("terminal/summary-panic", p)], false),
    };
    let Some(i) = text.rfind("[Summary]") else {
        return (vec![v("terminal/summary-missing", "the default terminal reporter printed no [Summary] block".into())], false);
    };
    match parse_summary(text[i..].trim_end()) {
        Err(e) => (vec![v("terminal/summary-text", e)], false),
        Ok(p) => {
            let exp = ParsedSummary {
                features: c.features,
                rules: c.rules,
                scenarios_total: c.sc_passed + c.sc_skipped + c.sc_failed,
                sc: [c.sc_passed, c.sc_skipped, c.sc_failed, p.sc[3]],
                steps_total: c.steps_passed + c.steps_skipped + c.steps_failed,
                st: [c.steps_passed, c.steps_skipped, c.steps_failed, c.steps_retried],
                parsing_errors: c.parsing_errors,
                hook_errors: c.hook_errors,
            };
            if p != exp || p.sc[3] > c.sc_retried_max {
                (vec![v("terminal/summary-totals", format!("the [Summary] block says {p:?}, the entries of the report add up to {exp:?} (retried scenarios at most {})", c.sc_retried_max))], false)
            } else {
                (vec![], false)
            }
        }
    }
}
