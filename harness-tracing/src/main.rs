//! `vtrace`: C20 (tracing attribution). Built with cucumber's `tracing` feature, which makes the
//! runner wake itself on every poll; kept out of the main harness for that reason. One child
//! process per case, because `init_tracing()` installs a process-global subscriber.
//!
//! `vtrace run|worker|saved|replay C20 ...` (campaign, through `vlab::engine`) and
//! `vtrace case` (one case: input JSON on stdin, result JSON on stdout).

use std::{
    cell::RefCell,
    collections::{BTreeMap, HashMap, VecDeque},
    future::Future as _,
    io::{Read as _, Write as _},
    process::{Command, Stdio},
    rc::Rc,
    task::Poll,
};

use cucumber::{Cucumber, Writer, cli, runner, writer};
use serde_json::{Value, json};
use vlab::{
    engine::{self, CaseOut, Ctx, Input, Property, Tier, Violation},
    lab::{
        self, Phase, W,
        case::{Profile, gen_case},
        driver::{self, EvKind, RawEv, RunEnd, ScEv, Schedule},
        model::{self, Attempt},
    },
    tape::{Tape, hash_str},
};

fn v(sig: &str, msg: String) -> Violation {
    Violation::new(format!("C20/{sig}"), msg)
}

use vlab::lab::driver::PW;

#[derive(Clone, Default)]
struct QW(Rc<RefCell<VecDeque<RawEv>>>);

impl Writer<W> for QW {
    type Cli = cli::Empty;

    async fn handle_event(&mut self, e: RawEv, _: &cli::Empty) {
        self.0.borrow_mut().push_back(e);
    }
}

impl writer::Normalized for QW {}

/// Half of the cases install a subscriber that filters at WARN (through
/// `configure_and_init_tracing`) and log at that level; the others use `init_tracing()` and INFO.
static WARN_MODE: std::sync::atomic::AtomicBool = std::sync::atomic::AtomicBool::new(false);

fn log_hook(s: &str) {
    let warn = WARN_MODE.load(std::sync::atomic::Ordering::Relaxed);
    // One log in five is emitted the way a step does it that hands work to a helper thread and
    // waits for it: from that thread, where no span is entered, with the step's span as the
    // explicit parent of the event.
    if vlab::tape::hash_str(s) % 5 == 0 {
        let span = tracing::Span::current();
        let s = s.to_string();
        let _ = std::thread::spawn(move || {
            if warn {
                tracing::warn!(parent: &span, "{s}");
            } else {
                tracing::info!(parent: &span, "{s}");
            }
        })
        .join();
    } else if warn {
        tracing::warn!("{s}");
    } else {
        tracing::info!("{s}");
    }
}

/// A child span of the current (step / hook) span that outlives the callback: what a step does that
/// spawns an instrumented background task. It is closed when the schedule releases its pseudo-gate.
fn span_hook(name: &str) -> Box<dyn std::any::Any> {
    // (ERROR level: must not be dropped by the WARN filter of half of the cases)
    Box::new(tracing::error_span!("background job", name))
}

/// The background task's last words: a log inside its span (a child of the step / hook span), emitted
/// after the callback returned and right before the span closes.
fn span_release_hook(obj: &dyn std::any::Any, tok: &str) {
    if let Some(span) = obj.downcast_ref::<tracing::Span>() {
        span.in_scope(|| log_hook(tok));
    }
}

/// A log from a detached thread: no span of any scenario is current there, the integration can
/// only hand it to every scenario that is running.
fn unattributed_log_hook(s: &str) {
    let s = s.to_string();
    let _ = std::thread::spawn(move || log_hook(&s)).join();
}

fn profile() -> Profile {
    Profile {
        max_features: 2,
        max_scenarios: 3,
        max_rules: 1,
        max_rule_scenarios: 2,
        max_steps: 3,
        max_bg: 1,
        p_before: 50,
        p_after: 50,
        p_retry_closure: 40,
        p_retry_tags_mode: 0,
        p_delay: 0,
        p_fail_fast: 15,
        p_lazy_parser: 20,
        p_parser_error: 0,
        p_fail_step: 15,
        p_fail_hook: 8,
        p_fail_world: 3,
        p_serial_tag: 10,
        p_custom_classifier: 0,
        conc_weights: [2, 3, 3, 2, 3, 2],
        ..Profile::default()
    }
}

fn run_one(input: &Input, want_sample: bool) -> Value {
    let mut ta = Tape::new(input.a.clone());
    let case = gen_case(&mut ta, &profile());
    lab::with_lab(|l| {
        l.log_hook = Some(log_hook);
        l.span_hook = Some(span_hook);
        l.span_release_hook = Some(span_release_hook);
        l.unattributed_log_hook = Some(unattributed_log_hook);
    });
    let (parser, delivered) = driver::prepare(&case);
    lab::with_lab(|l| {
        l.log_hook = Some(log_hook);
        l.span_hook = Some(span_hook);
        l.span_release_hook = Some(span_release_hook);
        l.unattributed_log_hook = Some(unattributed_log_hook);
    });
    let queue = QW::default();
    let opts = cli::Opts::<cli::Empty, runner::basic::Cli, cli::Empty, cli::Empty> { re_filter: None, tags_filter: None, parser: cli::Empty, runner: driver::build_cli(&case), writer: cli::Empty, custom: cli::Empty };
    let warn_mode = vlab::tape::hash_str(&format!("{:?}", &input.a[..input.a.len().min(6)])) % 2 == 1;
    WARN_MODE.store(warn_mode, std::sync::atomic::Ordering::Relaxed);
    let cuc = Cucumber::<W, _, (), _, _, cli::Empty>::custom(PW(Rc::new(RefCell::new(Some(parser)))), driver::build_runner(&case), queue.clone()).with_cli(opts);
    let cuc = if warn_mode {
        use tracing_subscriber::{Layer as _, filter::LevelFilter, fmt::format, layer::SubscriberExt as _};
        cuc.configure_and_init_tracing(format::DefaultFields::new(), format::Format::default(), |layer| tracing_subscriber::registry().with(LevelFilter::WARN.and_then(layer)))
    } else {
        cuc.init_tracing()
    };
    // Builder calls may follow the initialisation of tracing (the collector lives in the runner the
    // facade wraps, and the type-changing builder methods rebuild that runner): in half of the
    // cases the classifier and the hooks are set once more - to the same functions - afterwards.
    let cuc = if vlab::tape::hash_str(&format!("{:?}", &input.a[..input.a.len().min(7)])) % 2 == 0 {
        // (without a custom classifier: the documented default, `@serial` on any of the three levels)
        fn tagged_serial(f: &cucumber::gherkin::Feature, r: Option<&cucumber::gherkin::Rule>, s: &cucumber::gherkin::Scenario) -> cucumber::ScenarioType {
            if s.tags.iter().chain(r.iter().flat_map(|r| &r.tags)).chain(&f.tags).any(|t| t == "serial") { cucumber::ScenarioType::Serial } else { cucumber::ScenarioType::Concurrent }
        }
        let cuc = cuc.which_scenario(if case.custom_classifier { driver::custom_which as runner::basic::WhichScenarioFn } else { tagged_serial as runner::basic::WhichScenarioFn });
        let cuc = if case.before { cuc.before(driver::before_hook as runner::basic::BeforeHookFn<W>) } else { cuc };
        if case.after { cuc.after(driver::after_hook as runner::basic::AfterHookFn<W>) } else { cuc }
    } else {
        cuc
    };
    // Every other case keeps a clone of the configured executor alive while the original runs (a
    // base configuration shared by several runs): the tracing collector travels with the copy that
    // is run, whoever else still holds a handle to it.
    let spare = (vlab::tape::hash_str(&format!("{:?}", &input.a[..input.a.len().min(8)])) % 2 == 0).then(|| cuc.clone());
    let mut fut = Box::pin(cuc.run(()));
    let mut done = false;
    let mut tb = Tape::new(input.b.clone());
    // Half of the cases poll the run inside an ambient user span (as a `#[tracing::instrument]`ed
    // test function or `.instrument(span)` would), so that the scenario span is not the root.
    let ambient = ta.chance(1, 2).then(|| tracing::info_span!("ambient_user_span", run = 1));
    let q = queue.0.clone();
    let mut poll = |cx: &mut std::task::Context<'_>| -> Poll<Option<RawEv>> {
        if let Some(e) = q.borrow_mut().pop_front() {
            return Poll::Ready(Some(e));
        }
        if done {
            return Poll::Ready(None);
        }
        let polled = match &ambient {
            Some(sp) => sp.in_scope(|| fut.as_mut().poll(cx)),
            None => fut.as_mut().poll(cx),
        };
        match polled {
            Poll::Ready(_) => {
                done = true;
                match q.borrow_mut().pop_front() {
                    Some(e) => Poll::Ready(Some(e)),
                    None => Poll::Ready(None),
                }
            }
            Poll::Pending => match q.borrow_mut().pop_front() {
                Some(e) => Poll::Ready(Some(e)),
                None => Poll::Pending,
            },
        }
    };
    let log = driver::run_with(&case, &mut Schedule::Tape(&mut tb), &mut poll, &delivered, 48);
    let m = model::model_run(&case, &log);

    // ---- oracle
    let mut viol: Vec<Violation> = vec![];
    let mut herr: Option<String> = None;
    match &log.end {
        RunEnd::Completed => {}
        RunEnd::TimerTimeout => herr = Some("timer timeout".into()),
        other => viol.push(v("run-did-not-complete", format!("{other:?} after {} events", log.events.len()))),
    }
    // expected tokens from the callback log
    let nlogs = |key: &str, inv: usize, phase: &str| lab::log_count(key, inv, phase);
    let mut expected: Vec<(String, String, usize, Option<u64>)> = vec![]; // token, key, inv, world
    for c in log.calls.iter().filter(|c| c.phase == Phase::Enter && c.key != "WorldNew" && c.oc != lab::Oc::PanicEager) {
        for phase in ["pre", "post"] {
            for j in 0..nlogs(&c.key, c.inv, phase) {
                expected.push((format!("LOGTOK|{}|{}|{}|{phase}{j}|END", c.key, c.inv, c.world.map_or("-".to_string(), |w| w.to_string())), c.key.clone(), c.inv, c.world));
            }
        }
        // the log of the background task the callback left behind (emitted when the schedule ends it)
        if lab::leaves_span(&c.key, c.inv) {
            expected.push((format!("LOGTOK|{}|{}|{}|late0|END", c.key, c.inv, c.world.map_or("-".to_string(), |w| w.to_string())), c.key.clone(), c.inv, c.world));
        }
    }
    // observed Log events
    let mut seen: HashMap<String, Vec<usize>> = HashMap::new();
    for e in &log.events {
        if let Some((_, _, ScEv::Log(msg))) = e.sc() {
            match msg.find("LOGTOK|") {
                Some(i) => {
                    let rest = &msg[i..];
                    let tok = rest.find("|END").map_or(rest.trim_end().to_string(), |e| rest[..e + 4].to_string());
                    seen.entry(tok).or_default().push(e.idx);
                }
                // (logs from outside every scenario's context may be handed to any running scenario)
                None if msg.contains("UNATTR|") => {}
                None => viol.push(v("foreign-log", format!("Log event #{} carries no emitted token: {msg:?}", e.idx))),
            }
        }
    }
    let completed = log.end == RunEnd::Completed;
    // attempt lookup: (key, inv) -> attempt for attributable callbacks; world id -> attempt
    let mut by_cb: HashMap<(String, usize), usize> = HashMap::new();
    let mut by_world: HashMap<u64, usize> = HashMap::new();
    for (ai, a) in m.attempts.iter().enumerate().filter(|(_, a)| a.conforms) {
        for (k, inv) in &a.callbacks {
            if let Some(i) = inv {
                by_cb.insert((k.clone(), *i), ai);
                if let Some(w) = log.calls.iter().find(|c| c.phase == Phase::Enter && c.key == *k && c.inv == *i).and_then(|c| c.world) {
                    by_world.insert(w, ai);
                }
            }
        }
    }
    let mut concurrent_logging = false;
    if completed {
        for (tok, key, inv, world) in &expected {
            let idxs = seen.get(tok).cloned().unwrap_or_default();
            if idxs.len() != 1 {
                viol.push(v(if idxs.is_empty() { "log-lost" } else { "log-duplicated" }, format!("token {tok} emitted once by `{key}`#{inv}, delivered {} times as a Log event", idxs.len())));
                continue;
            }
            let li = idxs[0];
            let ev = &log.events[li];
            let (s, r, _) = ev.sc().unwrap();
            let att: Option<&Attempt> = by_cb.get(&(key.clone(), *inv)).or_else(|| world.and_then(|w| by_world.get(&w))).map(|i| &m.attempts[*i]);
            let Some(a) = att else { continue };
            if a.scenario != s || a.retries != r {
                viol.push(v("log-misattributed", format!("token {tok} was emitted inside attempt ({}, {:?}) but delivered as a Log event of ({s}, {r:?})", a.scenario, a.retries)));
                continue;
            }
            // position: after the Started of the emitting step / hook, before its result
            let (start, result): (Option<usize>, Option<usize>) = {
                let evs: Vec<&vlab::lab::driver::REv> = a.ev.iter().map(|i| &log.events[*i]).collect();
                if let Some(text) = key.strip_prefix("step:") {
                    (
                        evs.iter().find(|e| matches!(e.sc(), Some((_, _, ScEv::StepStarted { text: t, .. })) if t == text)).map(|e| e.idx),
                        evs.iter().find(|e| matches!(e.sc(), Some((_, _, ScEv::StepPassed { text: t, .. } | ScEv::StepFailed { text: t, .. } | ScEv::StepSkipped { text: t, .. })) if t == text)).map(|e| e.idx),
                    )
                } else {
                    let before = key.starts_with("before:");
                    (
                        evs.iter().find(|e| matches!(e.sc(), Some((_, _, ScEv::HookStarted { before: b })) if *b == before)).map(|e| e.idx),
                        evs.iter().find(|e| matches!(e.sc(), Some((_, _, ScEv::HookPassed { before: b } | ScEv::HookFailed { before: b, .. })) if *b == before)).map(|e| e.idx),
                    )
                }
            };
            match (start, result) {
                (Some(st), Some(re)) => {
                    if !(st < li && li < re) {
                        let kind = if key.starts_with("after:") { "after-hook" } else if key.starts_with("before:") { "before-hook" } else { "step" };
                        viol.push(v(&format!("log-position/{kind}"), format!("token {tok}: Log event #{li}, but `{key}` Started at #{st} and its result is #{re}")));
                    }
                }
                _ => viol.push(v("log-position/no-bracket", format!("token {tok}: emitting `{key}` has no Started/result events in attempt ({s}, {r:?})"))),
            }
        }
        for (tok, idxs) in &seen {
            if !expected.iter().any(|e| e.0 == *tok) {
                viol.push(v("log-never-emitted", format!("Log event(s) {idxs:?} carry token {tok} which no callback emitted")));
            }
        }
        // non-triviality: two attempts in flight both logging in the same quiescence round
        let mut per_round: BTreeMap<usize, std::collections::BTreeSet<(String, Option<(usize, usize)>)>> = BTreeMap::new();
        for e in &log.events {
            if let Some((s, r, ScEv::Log(_))) = e.sc() {
                per_round.entry(e.round).or_default().insert((s.to_string(), r));
            }
        }
        concurrent_logging = per_round.values().any(|s| s.len() >= 2);
    }
    // the stream-level oracles of C03 (framing) and C07 (serial isolation) on this build
    if completed {
        // ... and the per-attempt reference automaton of C02 (Log events are transparent to it)
        viol.extend(m.violations.iter().cloned());
        viol.extend(lab::oracles::check_c08(&case, &log, &m));
        viol.extend(lab::oracles::check_c03(&case, &log));
        viol.extend(lab::oracles::check_c07(&case, &log, &m));
    }
    let spare_alive = spare.is_some();
    drop(spare);
    if let RunEnd::Stalled(why) | RunEnd::NoProgress(why) = &log.end {
        // a fail-fast run that never ends breaks C08's closing clauses as well
        let failed_final = m.attempts.iter().any(|a| a.finished.is_some() && a.failed && a.retries.is_none_or(|r| r.1 == 0));
        if case.fail_fast() && failed_final {
            viol.push(Violation::new("C08/not-closed-cleanly/stalled".to_string(), format!("fail-fast run with a final failure never reached run-Finished: {why}")));
        }
    }
    let n_logs = log.events.iter().filter(|e| matches!(&e.k, EvKind::Sc { ev: ScEv::Log(_), .. })).count();
    let mut labels: Vec<&str> = vec![];
    if concurrent_logging {
        labels.push("nontrivial");
    }
    if m.attempts.iter().any(|a| a.retries.is_some_and(|r| r.0 > 0)) {
        labels.push("retried_attempt");
    }
    if n_logs > 0 {
        labels.push("has_logs");
    }
    if ambient.is_some() {
        labels.push("ambient_user_span");
    }
    if spare_alive {
        labels.push("clone_of_the_executor_alive_during_the_run");
    }
    if warn_mode {
        labels.push("subscriber_filters_at_warn");
    }
    if log.quiescent.iter().any(|q| q.action.starts_with("span:")) {
        labels.push("span_outlives_its_callback");
    }
    let desc = case.describe();
    let sched: String = log.quiescent.iter().map(|q| format!("{},", q.choice)).collect();
    json!({
        "violations": viol.iter().map(|x| json!([x.sig, x.msg])).collect::<Vec<_>>(),
        "nontrivial": concurrent_logging,
        "hash": hash_str(&format!("{desc}|{sched}")).to_string(),
        "labels": labels,
        "harness_error": herr,
        "excluded": case.excluded,
        "counters": {"events": log.events.len(), "log_events": n_logs, "tokens_expected": expected.len(), "polls": log.polls},
        "sample": if want_sample { json!({"case": desc, "log_events": n_logs, "events": log.events.iter().take(70).map(|e| match e.sc() { Some((s, r, _)) => format!("{s}{}: {}", r.map_or(String::new(), |r| format!("#{}/{}", r.0, r.1)), model::short(e)), None => format!("{:?}", e.k) }).collect::<Vec<_>>()}) } else { Value::Null },
    })
}

struct C20;

fn intern(s: &str) -> &'static str {
    thread_local! {
        static POOL: RefCell<Vec<&'static str>> = const { RefCell::new(Vec::new()) };
    }
    POOL.with(|p| {
        let mut p = p.borrow_mut();
        if let Some(x) = p.iter().find(|x| **x == s) {
            return *x;
        }
        let l: &'static str = Box::leak(s.to_string().into_boxed_str());
        p.push(l);
        l
    })
}

impl Property for C20 {
    fn id(&self) -> &'static str {
        "C20"
    }
    fn rule(&self) -> String {
        "vtrace: one child process per case (init_tracing() installs a global subscriber). tape a -> RunnerLab case (1-6 scenarios, hooks, retries, concurrency 1..unlimited); every user callback emits 0-2 tracing::info! events with unique tokens before and 0-2 after its gate awaits; tape b -> schedule. The real Cucumber::custom(..).init_tracing().run() future is polled by hand (quiescence = 48 consecutive polls without activity, because the tracing build wakes itself every poll). Non-trivial iff Log events of >= 2 different attempts were received in the same quiescence round. Distinct = hash of decoded case + schedule.".into()
    }
    fn assumptions(&self) -> Vec<String> {
        vec!["attempts without any attributable callback (only shared background steps, no hooks) are checked for exactly-once delivery only".into()]
    }
    fn tape_lens(&self, _: Tier) -> (usize, usize) {
        (500, 160)
    }
    fn cases(&self, tier: Tier) -> u64 {
        match tier {
            Tier::Quick => 1500,
            Tier::Thorough => 30_000,
        }
    }
    fn floors(&self) -> Vec<(&'static str, f64)> {
        vec![("nontrivial", 0.03)]
    }
    fn run(&self, input: &Input, ctx: &Ctx) -> CaseOut {
        let mut out = raw_run(input, ctx);
        out.violations.retain(|v| v.sig.starts_with("C20/"));
        out
    }
}

/// Runs one case in a child process; returns the violations of every oracle evaluated there
/// (`C20/…` and the lab oracles `C03/…`, `C07/…`).
fn raw_run(input: &Input, ctx: &Ctx) -> CaseOut {
    {
        let exe = std::env::current_exe().expect("current_exe");
        let mut child = match Command::new(exe).arg("case").arg(if ctx.want_sample { "sample" } else { "nosample" }).stdin(Stdio::piped()).stdout(Stdio::piped()).stderr(Stdio::null()).spawn() {
            Ok(c) => c,
            Err(e) => return CaseOut { harness_error: Some(format!("cannot spawn case process: {e}")), ..CaseOut::default() },
        };
        let _ = child.stdin.take().unwrap().write_all(input.to_json().to_string().as_bytes());
        let mut out = String::new();
        let _ = child.stdout.take().unwrap().read_to_string(&mut out);
        let status = child.wait();
        let Some(v) = out.lines().rev().find_map(|l| serde_json::from_str::<Value>(l).ok()) else {
            return CaseOut { harness_error: Some(format!("case process gave no result (status {status:?}): {}", out.chars().take(300).collect::<String>())), ..CaseOut::default() };
        };
        CaseOut {
            violations: v["violations"].as_array().into_iter().flatten().map(|x| Violation::new(x[0].as_str().unwrap_or(""), x[1].as_str().unwrap_or(""))).collect(),
            nontrivial: v["nontrivial"].as_bool().unwrap_or(false),
            hash: v["hash"].as_str().and_then(|s| s.parse().ok()).unwrap_or(0),
            labels: v["labels"].as_array().into_iter().flatten().filter_map(Value::as_str).map(intern).collect(),
            sample: (!v["sample"].is_null()).then(|| v["sample"].clone()),
            excluded: v["excluded"].as_u64().unwrap_or(0),
            harness_error: v["harness_error"].as_str().map(str::to_string),
            counters: v["counters"].as_object().into_iter().flatten().map(|(k, n)| (intern(k), n.as_u64().unwrap_or(0))).collect(),
        }
    }
}

/// C04 ("the run always terminates") judged on the tracing build: the same cases, only the
/// termination verdict is kept.
struct C04T;

impl Property for C04T {
    fn id(&self) -> &'static str {
        "C04"
    }
    fn saved_id(&self) -> &'static str {
        "C04-tracing"
    }
    fn rule(&self) -> String {
        "vtrace (crate built with feature `tracing`, Cucumber::run + init_tracing(), one process per case): the C20 cases - callbacks logging before / after their awaits and leaving child spans alive until the schedule closes them - judged for termination only: once every gate has been released and every held span closed the event stream must end. Non-trivial as for C20.".into()
    }
    fn tape_lens(&self, t: Tier) -> (usize, usize) {
        C20.tape_lens(t)
    }
    fn cases(&self, tier: Tier) -> u64 {
        match tier {
            Tier::Quick => 600,
            Tier::Thorough => 12_000,
        }
    }
    fn run(&self, input: &Input, ctx: &Ctx) -> CaseOut {
        let mut out = raw_run(input, ctx);
        out.violations = out
            .violations
            .into_iter()
            .filter(|v| v.sig == "C20/run-did-not-complete")
            .map(|v| Violation::new("C04/tracing-build/run-did-not-complete".to_string(), v.msg))
            .collect();
        out
    }
}

/// A RunnerLab property (C03 framing, C07 serial isolation) judged on the tracing build: the same
/// cases as C20, the property's own stream oracle.
struct LabT(&'static str);

impl Property for LabT {
    fn id(&self) -> &'static str {
        self.0
    }
    fn saved_id(&self) -> &'static str {
        match self.0 {
            "C02" => "C02-tracing",
            "C08" => "C08-tracing",
            "C03" => "C03-tracing",
            _ => "C07-tracing",
        }
    }
    fn rule(&self) -> String {
        format!("vtrace (crate built with feature `tracing`, Cucumber::run + init_tracing() or a WARN-filtering subscriber, one process per case): the C20 cases - callbacks logging in bursts, leaving child spans alive, logging from detached threads - judged by the stream oracle of {} only.", self.0)
    }
    fn tape_lens(&self, t: Tier) -> (usize, usize) {
        C20.tape_lens(t)
    }
    fn cases(&self, tier: Tier) -> u64 {
        match tier {
            Tier::Quick => 600,
            Tier::Thorough => 12_000,
        }
    }
    fn run(&self, input: &Input, ctx: &Ctx) -> CaseOut {
        let mut out = raw_run(input, ctx);
        let prefix = format!("{}/", self.0);
        out.violations = out
            .violations
            .into_iter()
            .filter(|v| v.sig.starts_with(&prefix))
            .map(|v| Violation::new(format!("{}/tracing-build/{}", self.0, &v.sig[prefix.len()..]), v.msg))
            .collect();
        out
    }
}

fn main() {
    let _ = engine::HARNESS.set("vtrace");
    let args: Vec<String> = std::env::args().collect();
    let tier_of = |s: &str| if s == "thorough" { Tier::Thorough } else { Tier::Quick };
    let seed: u64 = std::env::var("VERIF_SEED").ok().and_then(|s| s.parse().ok()).unwrap_or(0);
    let prop: &dyn Property = match args.get(2).map(String::as_str) {
        Some("C04") => &C04T,
        Some("C02") => &LabT("C02"),
        Some("C08") => &LabT("C08"),
        Some("C03") => &LabT("C03"),
        Some("C07") => &LabT("C07"),
        _ => &C20,
    };
    match args.get(1).map(String::as_str) {
        Some("case") => {
            let mut s = String::new();
            let _ = std::io::stdin().read_to_string(&mut s);
            let input = serde_json::from_str::<Value>(&s).ok().and_then(|v| Input::from_json(&v)).expect("input JSON on stdin");
            let out = run_one(&input, args.get(2).is_some_and(|a| a == "sample"));
            println!("{out}");
        }
        Some("run") => std::process::exit(engine::parent(prop, tier_of(args.get(3).map_or("quick", String::as_str)), seed)),
        Some("worker") => {
            let cases = std::env::var("VERIF_CASES").ok().and_then(|s| s.parse().ok());
            engine::worker(prop, tier_of(&args[3]), seed, (args[4].parse().unwrap(), args[5].parse().unwrap()), cases);
        }
        Some("saved") => engine::saved(prop, tier_of(&args[3])),
        Some("replay") => std::process::exit(engine::replay(prop, &args[3])),
        _ => {
            eprintln!("usage: vtrace run|worker|saved|replay C20 ... | vtrace case");
            std::process::exit(2)
        }
    }
}
