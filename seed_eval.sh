#!/bin/bash
# usage: seed_eval.sh <patch.diff> <ID> [<ID>...]   -- applies a seeded change to /repo, runs the quick checks, reverts.
patch="$1"; shift
cd /repo || exit 2
if ! git diff --quiet; then echo "/repo has local changes, refusing"; exit 2; fi
git apply "$patch" || { echo "patch does not apply"; exit 2; }
trap 'git -C /repo checkout -- . ; echo "[reverted /repo]"' EXIT
cd /verif
for id in "$@"; do
  echo "=== $id"
  VERIF_TIER="${TIER:-quick}" timeout 1800 ./check "$id" "${TIER:-quick}" 2>&1 | grep -v "^proptest:" | grep -E "VIOLATION|signature|message|KNOWN|HARNESS|GENERATOR|INCONCLUSIVE| quick:| thorough:" | cut -c1-600
done
