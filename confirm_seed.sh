#!/bin/bash
# usage: confirm_seed.sh <worktree> ; confirms a seeded change: demo fails with it, passes without, existing suite passes with it.
wt="$1"; cd "$wt" || exit 2
export CARGO_NET_OFFLINE=true
out="$wt/seeded/confirm.log"; : > "$out"
echo "## demo with change" >> "$out"
cargo test --offline $FEATURES --test seeded_demo >> "$out" 2>&1; with=$?
echo "## full suite with change (demo excluded)" >> "$out"
mv tests/seeded_demo.rs /tmp/$(basename $wt)_seeded_demo.rs.aside
cargo test --workspace --no-fail-fast --offline > "$wt/seeded/suite.log" 2>&1; suite=$?
grep -E "^test result|FAILED" "$wt/seeded/suite.log" | sort | uniq -c >> "$out"
mv /tmp/$(basename $wt)_seeded_demo.rs.aside tests/seeded_demo.rs
echo "## demo without change" >> "$out"
git apply -R seeded/patch.diff && cargo test --offline $FEATURES --test seeded_demo >> "$out" 2>&1; without=$?
git apply seeded/patch.diff
echo "RESULT demo_with_change_exit=$with suite_exit=$suite demo_without_change_exit=$without" | tee -a "$out"
