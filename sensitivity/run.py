#!/usr/bin/env python3
"""Applies each deliberate breakage of mutations.py to /repo, runs the named quick checks, reverts.
Writes results.md and one .diff per breakage. usage: run.py [name-substring]"""
import subprocess, sys, os, re
sys.path.insert(0, os.path.dirname(__file__))
from mutations import M

def sh(cmd, **kw):
    return subprocess.run(cmd, shell=True, capture_output=True, text=True, **kw)

only = sys.argv[1] if len(sys.argv) > 1 else ""
here = os.path.dirname(os.path.abspath(__file__))
rows = []
assert sh("git -C /repo diff --quiet").returncode == 0, "/repo has local changes"
for name, props, path, old, new in M:
    if only not in name:
        continue
    full = os.path.join("/repo", path)
    src = open(full).read()
    if old is None or src.count(old) != 1:
        rows.append((name, props, "SKIPPED (pattern not found exactly once: %s)" % (0 if old is None else src.count(old)), ""))
        print(name, "pattern problem")
        continue
    try:
        open(full, "w").write(src.replace(old, new, 1))
        diff = sh("git -C /repo diff").stdout
        open(os.path.join(here, name + ".diff"), "w").write(diff)
        res = []
        for p in props:
            r = sh(f"cd /verif && ./check {p} quick", timeout=3000)
            out = r.stdout + r.stderr
            sigs = sorted(set(re.findall(r"signature: (\S+)", out)))
            if r.returncode == 1:
                res.append(f"{p}: CAUGHT {', '.join(sigs)}")
            elif r.returncode == 0:
                res.append(f"{p}: missed")
            else:
                tail = [l for l in out.splitlines() if "HARNESS" in l or "error" in l.lower()][:2]
                res.append(f"{p}: exit {r.returncode} {' | '.join(tail)[:200]}")
        rows.append((name, props, "; ".join(res), ""))
        print(name, "->", "; ".join(res), flush=True)
    finally:
        sh("git -C /repo checkout -- .")
with open(os.path.join(here, "results.md"), "a" if only else "w") as f:
    if not only:
        f.write("# Deliberate breakages vs quick checks\n\nEach breakage is a one-line edit of /repo (see `<name>.diff`), applied, checked with `./check <ID> quick`, reverted.\n\n| breakage | checks run | outcome |\n|---|---|---|\n")
    for name, props, res, _ in rows:
        f.write(f"| {name} | {', '.join(props)} | {res} |\n")
