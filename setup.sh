#!/bin/bash
# setup_cmd: offline build of the harness from files on disk.
set -e
cd "$(dirname "$0")"
export CARGO_NET_OFFLINE=true
rustc --version; cargo --version
cargo build --offline -p vlab 2>&1 | tail -3
cargo build --offline -p vtrace 2>&1 | tail -3
echo "setup ok"
